#!/usr/bin/env python3
"""usage: core.py <funckey-substr> <obligation-substr>  -- prints the unsat core of a query"""
import re,subprocess,sys
q=subprocess.run(['/verif/bin/govc','vc',sys.argv[1],sys.argv[2]],capture_output=True,text=True).stdout
lines=q.split('\n')
# keep first query only
out=['(set-option :produce-unsat-cores true)']; n=0; started=False; idx={}
for l in lines:
    if l.startswith('; ----'):
        if started: break
        started=True; continue
    if l.startswith('(assert '):
        n+=1; idx[n]=l
        out.append('(assert (! %s :named a%d))'%(l[8:-1],n))
    elif l.startswith('(get-value'): pass
    elif l.startswith('(check-sat)'): out.append('(check-sat)\n(get-unsat-core)')
    else: out.append(l)
open('/tmp/core.smt2','w').write('\n'.join(out))
r=subprocess.run(['z3-new','-T:60','/tmp/core.smt2'],capture_output=True,text=True).stdout
print(r[:200])
for k in re.findall(r'a(\d+)',r):
    print(k, idx[int(k)][:int(sys.argv[3]) if len(sys.argv)>3 else 600])
