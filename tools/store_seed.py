#!/usr/bin/env python3
"""tools/store_seed.py <id e.g. C11-5> <srcdir> <status detected|missed> <needs_to_manifest> <detected_by> <history>"""
import json, shutil, os, sys
sid, src, status, need, det, hist = sys.argv[1:7]
ORIGIN_FIRST = len(sys.argv) > 7 and sys.argv[7] == 'first'  # first round: no hints about earlier seeds
prop = sid.split('-')[0]
dd = '/verif/seeded/' + sid
os.makedirs(dd, exist_ok=True)
for f in ('patch.diff', 'demo_test.go', 'notes.md'):
    shutil.copy(os.path.join(src, f), dd)
json.dump({"id": sid, "property": prop, "status": status,
           "origin": "independent sub-agent given only the property text and a scratch worktree" + ("" if ORIGIN_FIRST else (" (third round: told the trigger conditions of all earlier seeds)" if len(sys.argv) > 7 and sys.argv[7] == 'third' else " (second round: also told which trigger conditions the first round had used)")),
           "needs_to_manifest": need,
           "confirmed": "tools/try_seed.sh: change compiles, existing package tests pass with it, demo_test.go fails with it and passes without it (scratch worktree under /tmp, removed afterwards)",
           "detected_by": det, "history": hist,
           "ran": "git -C /repo apply patch.diff; bin/govc check %s; git -C /repo checkout -- ." % prop}, open(dd + '/meta.json', 'w'), indent=1)
print("stored", sid)
