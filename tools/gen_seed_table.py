#!/usr/bin/env python3
"""Rewrites the seeded-change table of DESIGN.md (between the SEEDS markers) from seeded/*/meta.json."""
import json, glob, os, re
V = os.path.dirname(os.path.dirname(os.path.abspath(__file__)))
rows = []
def key(p):
    b = os.path.basename(os.path.dirname(p)); a, n = b.split('-'); return (a, int(n))
for f in sorted(glob.glob(os.path.join(V, 'seeded', '*', 'meta.json')), key=key):
    m = json.load(open(f))
    det = m.get('detected_by', '-')
    hist = m.get('history', '')
    st = m.get('status') or ('missed' if det.strip() in ('-', '') else 'detected')
    first = 'first run' if hist.lower().startswith('caught') else ('after strengthening' if st == 'detected' else 'no')
    rows.append('| %s | %s | %s | %s | %s |' % (m['id'], m.get('needs_to_manifest', '').replace('|', '/'), st, first, det.replace('|', '/')))
tab = ['| seed | manifests only when | status | caught | obligation(s) that report it |', '|---|---|---|---|---|'] + rows
p = os.path.join(V, 'DESIGN.md')
s = open(p).read()
a, b = '<!-- SEEDS:BEGIN -->', '<!-- SEEDS:END -->'
if a in s:
    s = s[:s.index(a) + len(a)] + '\n' + '\n'.join(tab) + '\n' + s[s.index(b):]
    open(p, 'w').write(s)
print(len(rows), 'seeds')
