#!/bin/bash
# Re-applies every stored seeded change to /repo (must be clean), runs the property's quick
# check and reports whether it is (still) detected. Usage: tools/rerun_seeds.sh [PROP...]
cd "$(dirname "$0")/.."
if [ -n "$(git -C /repo status --porcelain)" ]; then echo "/repo has uncommitted changes, refusing"; exit 2; fi
for d in seeded/*/; do
  id=$(basename $d); prop=${id%%-*}
  if [ $# -gt 0 ] && ! echo " $* " | grep -q " $prop "; then continue; fi
  want=$(python3 -c "import json;print(json.load(open('$d/meta.json')).get('status') or 'detected')")
  git -C /repo apply "$PWD/$d/patch.diff" 2>/dev/null || { echo "$id: patch no longer applies"; continue; }
  out=$(bin/govc check $prop --no-evidence 2>&1 | grep -c '^VIOLATION')
  git -C /repo checkout -q -- . ; git -C /repo clean -fdq
  if [ "$out" -gt 0 ]; then got=detected; else got=missed; fi
  echo "$id: $got (recorded: $want)"
done
