#!/bin/bash
# usage: tools/try_seed.sh <seed-dir> <PROP> <worktree> <pkgdir-of-demo> <test-pkgs>
# 1. confirms in a scratch worktree that the change compiles, passes the package tests and
#    that the demonstration fails with it and passes without it
# 2. applies the change to /repo, runs the property's check, and undoes it straight afterwards
export GOFLAGS=-mod=mod GOPROXY=off
seed=$1; prop=$2; wt=$3; demodir=$4; pkgs=$5
cd $wt || exit 2
git checkout -q -- . ; git clean -fdq
git apply $seed/patch.diff || { echo "SEED: patch does not apply"; exit 2; }
go build ./... || { echo "SEED: does not build"; exit 2; }
if go test -count=1 $pkgs >/tmp/seed_tests.log 2>&1; then echo "SEED: existing tests pass with change"; else echo "SEED: existing tests FAIL with change"; tail -5 /tmp/seed_tests.log; fi
cp $seed/demo_test.go $demodir/zz_demo_test.go
if go test -count=1 -run 'Demo' ./$demodir/ >/tmp/seed_demo1.log 2>&1; then echo "SEED: demo PASSES with change (bad)"; else echo "SEED: demo fails with change (good)"; fi
git checkout -q -- . 
if go test -count=1 -run 'Demo' ./$demodir/ >/tmp/seed_demo2.log 2>&1; then echo "SEED: demo passes without change (good)"; else echo "SEED: demo FAILS without change (bad)"; tail -5 /tmp/seed_demo2.log; fi
rm -f $demodir/zz_demo_test.go; git checkout -q -- . ; git clean -fdq
find . -name zz_verif_contracts.go -delete
# now against /repo
cd /verif
if [ -n "$(git -C /repo status --porcelain)" ]; then echo "SEED: /repo has uncommitted changes, refusing"; exit 2; fi
git -C /repo apply $seed/patch.diff || { echo "SEED: patch does not apply to /repo"; exit 2; }
bin/govc check $prop --no-evidence 2>&1 | grep -v "^govc: note" | tail -6
git -C /repo checkout -- .
git -C /repo status --short | head -3
