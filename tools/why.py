#!/usr/bin/env python3
"""usage: why.py <func> <obligation>: which conjuncts of the goal can be falsified?"""
import subprocess,sys,re
q=subprocess.run(['/verif/bin/govc','vc',sys.argv[1],sys.argv[2]],capture_output=True,text=True).stdout
parts=q.split('; ----')
body=parts[1]
lines=body.split('\n')[1:]
pre=[l for l in lines if not l.startswith('(assert (not') and not l.startswith('(check-sat') and not l.startswith('(get-value')]
goal=[l for l in lines if l.startswith('(assert (not')][-1]
g=goal[len('(assert (not '):-2]
def parse(s):
    # returns list of top-level sexprs in s
    out=[];depth=0;start=None;i=0
    while i<len(s):
        ch=s[i]
        if ch=='|':
            j=s.index('|',i+1)
            if depth==0: out.append(s[i:j+1])
            i=j+1;continue
        if ch=='(':
            if depth==0:start=i
            depth+=1
        elif ch==')':
            depth-=1
            if depth==0: out.append(s[start:i+1])
        elif depth==0 and not ch.isspace():
            j=i
            while j<len(s) and not s[j].isspace() and s[j] not in '()':j+=1
            out.append(s[i:j]);i=j;continue
        i+=1
    return out
def conj(s,hyps):
    s=s.strip()
    if s.startswith('(and '):
        r=[]
        for p in parse(s[5:-1]): r+=conj(p,hyps)
        return r
    if s.startswith('(=> '):
        ps=parse(s[4:-1])
        return conj(ps[1],hyps+[ps[0]])
    return [(hyps,s)]
for hyps,c in conj(g,[]):
    script='\n'.join(pre)+'\n'+''.join('(assert %s)\n'%h for h in hyps)+'(assert (not %s))\n(check-sat)\n'%c
    open('/tmp/why.smt2','w').write(script)
    r=subprocess.run(['z3-new','-T:10','/tmp/why.smt2'],capture_output=True,text=True).stdout.split('\n')[0]
    print(r, c[:300])
