#!/bin/bash
# usage: tools/selftest_all.sh [jobs]
# Runs the whole must-fail corpus against a snapshot worktree of /repo's HEAD (so that /repo can
# be edited meanwhile), several properties at a time. Output: /tmp/selftest/<PROP>.log
jobs=${1:-4}
snap=/tmp/st_repo
git -C /repo worktree remove --force $snap 2>/dev/null
git -C /repo worktree add -q --detach $snap HEAD || exit 2
mkdir -p /tmp/selftest
rm -f /tmp/selftest/*.log
cp /verif/bin/govc /tmp/selftest/govc   # the engine can be rebuilt meanwhile
ls /verif/selftest/mutants/*.json | sed 's|.*/||; s|\.json||' | xargs -P $jobs -I{} sh -c "VERIF_REPO=$snap VERIF_NO_EVIDENCE=1 /tmp/selftest/govc selftest {} > /tmp/selftest/{}.log 2>&1"
git -C /repo worktree remove --force $snap
grep -h "^selftest: [0-9]* mutants" /tmp/selftest/*.log
grep -h "FAIL" /tmp/selftest/*.log
