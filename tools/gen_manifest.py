#!/usr/bin/env python3
"""Regenerates /verif/MANIFEST.json from tools/claims.json (kept valid at all times)."""
import json, os, subprocess
V = os.path.dirname(os.path.dirname(os.path.abspath(__file__)))
props = [json.loads(l) for l in open(os.path.join(V, 'properties.jsonl'))]
claims = json.load(open(os.path.join(V, 'tools', 'claims.json')))
def hook_commits():
    try:
        out = subprocess.check_output(['git', '-C', '/repo', 'log', '--format=%h %s'], text=True)
        return [l.split()[0] for l in out.splitlines() if l.split(' ', 1)[1].startswith('verif:')]
    except Exception:
        return []
m = {
 "version": 1,
 "setup_cmd": "cd /verif/govc && GOFLAGS=-mod=vendor GOPROXY=off go build -o ../bin/govc .",
 "hooks": {"guard": "verif",
           "enable": "go build -tags verif: the hooks are comment-only files zz_verif_contracts.go (//go:build verif) holding the contracts; govc loads /repo with -tags=verif",
           "baseline_off_cmd": "cd /repo && GOFLAGS=-mod=mod GOPROXY=off go test -json -vet=off -count=1 -timeout 25m ./...",
           "source_commits": hook_commits(), "add_only": True},
 "engines": [{"name": "govc", "path": "/verif/govc", "serves_properties": sorted(claims["claimed"].keys()),
              "kind_free_text": "contract-based deductive verifier for Go written for this task: contracts as //@ comments in build-tagged files on the real functions, go/ssa symbolic execution of /repo's working tree into verification conditions (weakest-precondition style, loops cut at invariants, calls by contract), discharged by a z3 4.8.12 / z3 5.1.0 / cvc5 1.0 portfolio; refutations replayed on the real code with go test -overlay"}],
 "checks": [], "not_applicable": [],
 "notes": "See DESIGN.md. Contracts: /repo/**/zz_verif_contracts.go (tag verif) and /verif/contracts/lib/*.spec (trusted contracts of dependencies). Ledger: obligations.lock. Known findings: KNOWN_FINDINGS.txt. Self-test corpus: selftest/mutants (bin/govc selftest)."
}
for p in props:
    i = p['id']
    if i in claims["claimed"]:
        c = claims["claimed"][i]
        m["checks"].append({"property_id": i, "quick_cmd": "./check %s quick" % i, "thorough_cmd": "./check %s thorough" % i,
            "evidence_file": "/verif/evidence/%s.json" % i, "replay_cmd_template": "bin/govc replay {path}", "engine": "govc",
            "level_claimed": {"category": c["category"], "text": c["text"], "design_ref": "DESIGN.md §8 " + i},
            "level_note": c["note"], "technique": c["technique"]})
    else:
        m["not_applicable"].append({"property_id": i, "reason": claims["not_applicable"].get(i, "check not built yet in this session (contract-based plan in DESIGN.md §8 %s)" % i)})
json.dump(m, open(os.path.join(V, 'MANIFEST.json'), 'w'), indent=1)
print("claimed:", sorted(claims["claimed"].keys()))
