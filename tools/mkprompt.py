import json,sys,glob
pid=sys.argv[1]; n=sys.argv[2] if len(sys.argv)>2 else "3"
for l in open('/verif/properties.jsonl'):
    d=json.loads(l)
    if d['id']==pid: break
prev=[]
for f in sorted(glob.glob('/verif/seeded/%s-*/meta.json'%pid)):
    m=json.load(open(f)); prev.append("- "+m.get('needs_to_manifest',''))
mech="\n".join("- %s (%s)"%(m['name'],m['where']) for m in d['anchors']['mechanism'])
print(f"""You are helping test a verification effort by playing the role of a developer who introduces realistic regressions. You work ONLY in the git worktree /tmp/wt2_{pid} (a checkout of the Go project internetarchive/Zeno, a web crawler). Do not read or touch /verif or /repo. Files named zz_verif*.go were deliberately deleted from this worktree: ignore that (never restore them, never include them in any diff; `git status` shows them as deleted, that is expected).

Environment: no network. For every shell command export `GOFLAGS=-mod=mod GOPROXY=off`.

The property under test (semantic property of the crawler that must hold for all inputs / schedules / histories):

TITLE: {d['title']}
STATEMENT: {d['statement']}
QUANTIFIER: {d['quantifier']['text']}

Files: {', '.join(d['anchors']['files'])}
Mechanisms in the code:
{mech}

An earlier round already produced changes that manifest under the following conditions - do NOT repeat these, find DIFFERENT places and different kinds of mistakes:
{chr(10).join(prev)}

YOUR TASK: produce {n} DIFFERENT, independent changes to the source (each a separate small patch against the unmodified HEAD of the worktree), each of which:
 (a) compiles (`go build ./...`),
 (b) keeps the existing tests of the touched packages passing (run them),
 (c) breaks the property above, but ONLY under something specific (a particular input shape, configuration value, ordering, boundary value, error path ...), not on every input; it should look like a plausible refactoring/optimisation/bug-fix gone subtly wrong that a reviewer could miss. Prefer subtle semantic slips inside existing logic (boundary conditions, a changed operator, a value read at the wrong moment, aliasing, a skipped element, an early return) over bolting on new features; vary the functions you touch across the mechanisms listed above,
 (d) comes with a demonstration: a Go test file (package-internal test, name it demo_test.go, test function names containing "Demo") that FAILS with your change applied and PASSES on the unmodified code, exercising the real functions.

For each change k = 1..{n} create the directory /tmp/seeded2_{pid}/k/ containing:
 - patch.diff : `git diff` of the SOURCE change only (no test files, no zz_verif files), applicable with `git apply` to the unmodified HEAD
 - demo_test.go : the demonstration test (state in a comment at the top which package directory it must be copied into)
 - notes.md : 5-10 lines: what was changed, which clause of the property breaks, under exactly what it manifests, why existing tests do not notice.
After producing each change, verify (a),(b),(d) yourself (apply patch, build, run package tests, run demo with and without the patch), then reset the worktree with `git checkout -- . && git clean -fdq` and delete the zz_verif files again with `find . -name "zz_verif*.go" -delete` before the next one. Leave the worktree reset at the end.

Report at the end: for each change a short paragraph (file, what, which clause, trigger, and the package directory of the demo).""")
