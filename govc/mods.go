package main

import (
	"go/ast"
	"go/token"
	"go/types"
	"sort"
	"strings"

	"golang.org/x/tools/go/ssa"
)

// loopModSet: what a loop body (or a callee) may modify. heaps maps full heap names to sorts.
type loopModSet struct {
	cells map[*ssa.Alloc]bool
	heaps map[string]Sort
	all   bool
	except []string // with all: package names whose state (globals, fields of their types) is kept
	atomics bool // atomic ghost heaps are touched
}

func newModSet() *loopModSet {
	return &loopModSet{cells: map[*ssa.Alloc]bool{}, heaps: map[string]Sort{}}
}

// addLoc adds every heap that backs a location of type t with the given prefix.
func (c *FnCtx) addLoc(ms *loopModSet, prefix string, t types.Type, two bool, depth int) {
	if depth > 6 {
		ms.all = true
		return
	}
	if s := structOf(t); s != nil {
		// struct stored by value at this location: its fields live under the struct type's
		// own field prefixes, indexed by a sub-reference
		c.addStructFields(ms, t, depth+1)
		return
	}
	for _, lf := range c.leaves(t) {
		ms.heaps[prefix+lf.Suffix] = c.heapSort(lf.Sort, two)
	}
}

func (c *FnCtx) addStructFields(ms *loopModSet, t types.Type, depth int) {
	s := structOf(t)
	if s == nil {
		return
	}
	for i := 0; i < s.NumFields(); i++ {
		f := s.Field(i)
		c.addLoc(ms, fieldPrefix(t, f.Name()), f.Type(), false, depth)
	}
}

func (c *FnCtx) addAddrTargets(fr *Frame, ms *loopModSet, a ssa.Value) {
	switch x := a.(type) {
	case *ssa.Alloc:
		et := x.Type().Underlying().(*types.Pointer).Elem()
		if fr.direct != nil && fr.direct[x] {
			ms.cells[x] = true
		} else if structOf(et) != nil {
			c.addStructFields(ms, et, 0)
		} else if arr, ok := et.Underlying().(*types.Array); ok {
			c.addLoc(ms, "elem$"+typeKey(arr.Elem()), arr.Elem(), true, 0)
		} else {
			c.addLoc(ms, "cell$"+typeKey(et), et, false, 0)
		}
	case *ssa.FieldAddr:
		stT := x.X.Type().Underlying().(*types.Pointer).Elem()
		s := stT.Underlying().(*types.Struct)
		f := s.Field(x.Field)
		c.addLoc(ms, fieldPrefix(stT, f.Name()), f.Type(), false, 0)
	case *ssa.IndexAddr:
		var et types.Type
		switch u := x.X.Type().Underlying().(type) {
		case *types.Slice:
			et = u.Elem()
		case *types.Pointer:
			if arr, ok := u.Elem().Underlying().(*types.Array); ok {
				et = arr.Elem()
			}
		}
		if et != nil {
			c.addLoc(ms, "elem$"+typeKey(et), et, true, 0)
		} else {
			ms.all = true
		}
	case *ssa.Global:
		t := x.Type().Underlying().(*types.Pointer).Elem()
		if structOf(t) != nil {
			c.addStructFields(ms, t, 0)
		} else {
			c.addLoc(ms, "global$"+x.Pkg.Pkg.Name()+"."+x.Name(), t, false, 0)
		}
	default:
		if p, ok := a.Type().Underlying().(*types.Pointer); ok {
			if structOf(p.Elem()) != nil {
				c.addStructFields(ms, p.Elem(), 0)
			} else {
				c.addLoc(ms, "cell$"+typeKey(p.Elem()), p.Elem(), false, 0)
				// a free variable or parameter may point to a captured local of an enclosing frame
				if _, isFV := a.(*ssa.FreeVar); isFV {
					ms.all = true
				}
			}
		} else {
			ms.all = true
		}
	}
}

func (c *FnCtx) addMapHeaps(ms *loopModSet, mt types.Type) {
	m, ok := mt.Underlying().(*types.Map)
	if !ok {
		ms.all = true
		return
	}
	for name, srt := range c.mapHeapNames(m) {
		ms.heaps[name] = srt
	}
}

func (c *FnCtx) addChanHeaps(ms *loopModSet) {
	ms.heaps["chan$len"] = SArr(SInt, SInt)
	ms.heaps["chan$closed"] = SArr(SInt, SBool)
	ms.heaps["chan$sent"] = SArr(SInt, SInt)
	ms.heaps["chan$recvd"] = SArr(SInt, SInt)
}

func (c *FnCtx) loopMods(fr *Frame, li *loopInfo) *loopModSet {
	ms := newModSet()
	var blocks []*ssa.BasicBlock
	for b := range li.blocks {
		blocks = append(blocks, b)
	}
	sort.Slice(blocks, func(i, j int) bool { return blocks[i].Index < blocks[j].Index })
	for _, b := range blocks {
		for _, in := range b.Instrs {
			c.instrMods(fr, in, ms, 0)
		}
	}
	return ms
}

func (c *FnCtx) instrMods(fr *Frame, in ssa.Instruction, ms *loopModSet, depth int) {
	switch x := in.(type) {
	case *ssa.Store:
		c.addAddrTargets(fr, ms, x.Addr)
	case *ssa.MapUpdate:
		c.addMapHeaps(ms, x.Map.Type())
	case *ssa.Call:
		c.callMods(fr, x.Common(), ms, depth)
	case *ssa.Defer:
		c.callMods(fr, x.Common(), ms, depth)
	case *ssa.Go:
		// spawned goroutine: not followed (verified on its own)
	case *ssa.Send, *ssa.Select:
		c.addChanHeaps(ms)
	case *ssa.Next:
		// the iterator advances: its ghost state (position / visited set) changes
		c.addIterHeaps(ms, x)
	case *ssa.Range:
		ms.heaps["alloc"] = SInt
		ms.heaps["iter$pos"] = SArr(SInt, SInt)
		if m, ok := x.X.Type().Underlying().(*types.Map); ok {
			ks := c.scalarSort(m.Key())
			if ks == "" {
				ks = SInt
			}
			ms.heaps["iter$visited$"+string(ks)] = SArr(SInt, SArr(ks, SBool))
		}
	case *ssa.UnOp:
		if x.Op == token.ARROW {
			c.addChanHeaps(ms)
		}
	case *ssa.Alloc:
		ms.heaps["alloc"] = SInt
		c.addAddrTargets(fr, ms, x)
	case *ssa.MakeSlice:
		ms.heaps["alloc"] = SInt
		et := x.Type().Underlying().(*types.Slice).Elem()
		c.addLoc(ms, "elem$"+typeKey(et), et, true, 0)
	case *ssa.MakeMap:
		ms.heaps["alloc"] = SInt
		c.addMapHeaps(ms, x.Type())
	case *ssa.MakeChan:
		ms.heaps["alloc"] = SInt
		c.addChanHeaps(ms)
		ms.heaps["chan$cap"] = SArr(SInt, SInt)
	}
}

// callMods adds what a call may modify.
func (c *FnCtx) callMods(fr *Frame, cc *ssa.CallCommon, ms *loopModSet, depth int) {
	if b, ok := cc.Value.(*ssa.Builtin); ok {
		switch b.Name() {
		case "append":
			ms.heaps["alloc"] = SInt
			if sl, ok := cc.Args[0].Type().Underlying().(*types.Slice); ok {
				c.addLoc(ms, "elem$"+typeKey(sl.Elem()), sl.Elem(), true, 0)
			}
		case "copy":
			if sl, ok := cc.Args[0].Type().Underlying().(*types.Slice); ok {
				c.addLoc(ms, "elem$"+typeKey(sl.Elem()), sl.Elem(), true, 0)
			}
		case "delete":
			c.addMapHeaps(ms, cc.Args[0].Type())
		case "close":
			c.addChanHeaps(ms)
		}
		return
	}
	callee := cc.StaticCallee()
	if callee == nil {
		if cc.IsInvoke() {
			if ct := c.eng.ifaceContract(cc); ct != nil {
				c.contractMods(ct, ms)
				return
			}
			c.assume("A-ext-frame: calls into dependencies without a contract do not write fields of module-declared types")
			c.addGhostHeaps(ms)
			return
		}
		if mc, ok := cc.Value.(*ssa.MakeClosure); ok {
			c.fnMods(mc.Fn.(*ssa.Function), ms, depth+1)
			return
		}
		ms.all = true
		return
	}
	if ct := c.eng.contractFor(callee); ct != nil && !ct.Inline {
		c.contractMods(ct, ms)
		c.effectsMods(ct, callee, cc, ms, depth)
		return
	}
	if h := c.eng.externHandler(callee); h != nil {
		if h.mods != nil {
			h.mods(c, cc, ms)
		}
		return
	}
	if c.eng.inModule(callee) && callee.Blocks != nil {
		c.fnMods(callee, ms, depth+1)
		return
	}
	// dependency without a contract
	c.assume("A-ext-frame: calls into dependencies without a contract do not write fields of module-declared types")
	for _, a := range cc.Args {
		if sl, ok := a.Type().Underlying().(*types.Slice); ok {
			c.addLoc(ms, "elem$"+typeKey(sl.Elem()), sl.Elem(), true, 0)
		}
		if p, ok := a.Type().Underlying().(*types.Pointer); ok && structOf(p.Elem()) == nil {
			c.addLoc(ms, "cell$"+typeKey(p.Elem()), p.Elem(), false, 0)
		}
	}
	c.addGhostHeaps(ms)
}

func (c *FnCtx) addGhostHeaps(ms *loopModSet) {
	// nothing by default: ghost state moves only through contracts
}

func (c *FnCtx) contractMods(ct *FuncContract, ms *loopModSet) {
	if !ct.HasMods {
		ms.all = true
		return
	}
	for _, m := range ct.Modifies {
		if m.Text == "*" || strings.HasPrefix(m.Text, "*!") {
			ms.all = true
			continue
		}
		if effectsParam(&m) != "" {
			continue // added by effectsMods where the call site is known
		}
		if m.Text == "atomic(*)" {
			ms.atomics = true
			for name, srt := range c.heapNames {
				if strings.HasPrefix(name, "atomicval$") {
					ms.heaps[name] = srt
				}
			}
			continue
		}
		if call, ok := m.Expr.(*ast.CallExpr); ok {
			if id, ok := call.Fun.(*ast.Ident); ok && id.Name == "elems" && len(call.Args) == 1 {
				inner := Clause{Expr: &ast.IndexExpr{X: call.Args[0], Index: ast.NewIdent("nil")}, Text: m.Text}
				if names, ok := c.modHeapNames(ct, &inner); ok {
					for n, s := range names {
						ms.heaps[n] = s
					}
				} else {
					ms.all = true
				}
				continue
			}
			if id, ok := call.Fun.(*ast.Ident); ok && id.Name == "mapof" && len(call.Args) == 1 {
				inner := Clause{Expr: &ast.IndexExpr{X: call.Args[0], Index: ast.NewIdent("nil")}, Text: m.Text}
				if names, ok := c.modHeapNames(ct, &inner); ok {
					for n, s := range names {
						ms.heaps[n] = s
					}
				} else {
					ms.all = true
				}
				continue
			}
			if id, ok := call.Fun.(*ast.Ident); ok && id.Name == "atomic" {
				ms.atomics = true
				for fam, bt := range map[string]types.BasicKind{"atomic.Uint64": types.Uint64, "atomic.Int64": types.Int64, "atomic.Uint32": types.Uint32, "atomic.Int32": types.Int32} {
					ms.heaps["atomicval$"+fam] = SArr(SInt, c.scalarSort(types.Typ[bt]))
				}
				ms.heaps["atomicval$atomic.Bool"] = SArr(SInt, SBool)
				inner := Clause{Expr: call.Args[0], Text: m.Text}
				if names, ok := c.modHeapNames(ct, &inner); ok {
					for n, s := range names {
						ms.heaps[n] = s
					}
				}
				continue
			}
		}
		names, ok := c.modHeapNames(ct, &m)
		if !ok {
			ms.all = true
			continue
		}
		for n, s := range names {
			ms.heaps[n] = s
		}
	}
	ms.heaps["alloc"] = SInt
}

func (c *FnCtx) fnMods(fn *ssa.Function, ms *loopModSet, depth int) {
	if depth > 5 {
		ms.all = true
		return
	}
	if fn.Blocks == nil {
		return
	}
	fr := &Frame{fn: fn}
	for _, b := range fn.Blocks {
		for _, in := range b.Instrs {
			// stores to the callee's own direct cells do not matter to the caller; treat every
			// non-struct local alloc as private
			if s, ok := in.(*ssa.Store); ok {
				if a, ok := s.Addr.(*ssa.Alloc); ok {
					et := a.Type().Underlying().(*types.Pointer).Elem()
					if structOf(et) == nil {
						if _, isArr := et.Underlying().(*types.Array); !isArr {
							continue
						}
					}
				}
			}
			if _, ok := in.(*ssa.Alloc); ok {
				// objects allocated by the callee are fresh for the caller: their initialisation
				// does not modify anything the caller knows about
				ms.heaps["alloc"] = SInt
				continue
			}
			if s, ok := in.(*ssa.Store); ok && rootedAtLocalAlloc(s.Addr) {
				continue
			}
			c.instrMods(fr, in, ms, depth)
		}
	}
}

func (c *FnCtx) havoc(st *State, fr *Frame, ms *loopModSet, why string) {
	if ms.all {
		prevEpoch := st.epoch
		c.epochs++
		st.epoch = c.epochs
		kept := map[string]int{}
		for _, x := range ms.except {
			if ep, ok := st.kept[x]; ok {
				kept[x] = ep
			} else {
				kept[x] = prevEpoch
			}
		}
		st.kept = kept
		old := st.heap
		st.heap = map[string]Term{}
		for k, v := range old {
			// allocation only grows; ghost state moves only through contracts (callees that
			// touch ghost state must say so: checked structurally by `attr nocall`)
			if k == "alloc" || strings.HasPrefix(k, "ghost$") || strings.HasPrefix(k, "atomic$") || k == "held$" {
				st.heap[k] = v
			}
			for _, x := range ms.except {
				// `modifies *!pkg`: everything but the state of package pkg
				if strings.HasPrefix(k, x+".") || strings.HasPrefix(k, "global$"+x+".") {
					st.heap[k] = v
				}
			}
		}
		c.pinned = true
		{
			old := c.allocCur(st)
			nw := c.vc.Fresh("hv$alloc", SInt)
			c.vc.Assert(App(SBool, ">=", nw, old))
			c.heapSet(st, "alloc", nw)
		}
	} else {
		var names []string
		for n := range ms.heaps {
			names = append(names, n)
		}
		sort.Strings(names)
		for _, name := range names {
			if name == "alloc" {
				// allocation only grows
				old := c.allocCur(st)
				nw := c.vc.Fresh("hv$alloc", SInt)
				c.vc.Assert(App(SBool, ">=", nw, old))
				c.heapSet(st, "alloc", nw)
				continue
			}
			srt := ms.heaps[name]
			c.heapNames[name] = srt
			st.heap[name] = c.vc.Fresh("hv$"+strings.ReplaceAll(name, " ", ""), srt)
		}
	}
	if ms.atomics {
		// every atomic family: new epoch (covers families not referenced so far)
		for name := range st.heap {
			if atomicHeap(name) {
				delete(st.heap, name)
			}
		}
		c.epochs++
		st.aepoch = c.epochs
		c.atomicsHavocked = true
	}
	for a := range ms.cells {
		k := cellKey{frame: fr.id, alloc: a}
		et := a.Type().Underlying().(*types.Pointer).Elem()
		v := c.freshValue(et, "hv$"+a.Comment)
		c.assumeAllocatedSV(st, v, et)
		st.cells[k] = v
	}
}

// rootedAtLocalAlloc: the address is a field/element of an object allocated in this function.
func rootedAtLocalAlloc(a ssa.Value) bool {
	for i := 0; i < 8; i++ {
		switch x := a.(type) {
		case *ssa.Alloc:
			return true
		case *ssa.FieldAddr:
			a = x.X
		case *ssa.IndexAddr:
			a = x.X
		default:
			return false
		}
	}
	return false
}

// effectsParam: `modifies effects(p)`: everything the function value passed for parameter p
// may write (the callee applies it; the write set is computed from the closure's body).
func effectsParam(m *Clause) string {
	if call, ok := m.Expr.(*ast.CallExpr); ok {
		if id, ok := call.Fun.(*ast.Ident); ok && id.Name == "effects" && len(call.Args) == 1 {
			if a, ok := call.Args[0].(*ast.Ident); ok {
				return a.Name
			}
		}
	}
	return ""
}

func (c *FnCtx) effectsMods(ct *FuncContract, callee *ssa.Function, cc *ssa.CallCommon, ms *loopModSet, depth int) {
	for i := range ct.Modifies {
		p := effectsParam(&ct.Modifies[i])
		if p == "" {
			continue
		}
		found := false
		for k, prm := range callee.Params {
			if prm.Name() != p || k >= len(cc.Args) {
				continue
			}
			switch a := cc.Args[k].(type) {
			case *ssa.MakeClosure:
				c.fnMods(a.Fn.(*ssa.Function), ms, depth+1)
				found = true
			case *ssa.Function:
				c.fnMods(a, ms, depth+1)
				found = true
			}
		}
		if !found {
			ms.all = true
		}
	}
}

func (c *FnCtx) addIterHeaps(ms *loopModSet, x *ssa.Next) {
	if x.IsString {
		ms.heaps["iter$pos"] = SArr(SInt, SInt)
		return
	}
	if rng, ok := x.Iter.(*ssa.Range); ok {
		if m, ok := rng.X.Type().Underlying().(*types.Map); ok {
			ks := c.scalarSort(m.Key())
			if ks == "" {
				ks = SInt
			}
			ms.heaps["iter$visited$"+string(ks)] = SArr(SInt, SArr(ks, SBool))
			return
		}
	}
	ms.heaps["iter$pos"] = SArr(SInt, SInt)
}
