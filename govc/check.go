package main

import (
	"fmt"
	"go/types"
	"os"
	"sort"
	"strings"
	"sync"
	"time"

	"golang.org/x/tools/go/ssa"
)

type FnResult struct {
	Key           string
	Obls          []*Obligation
	Abstracted    []string
	Assumptions   []string
	Trusted       []string
	UsedContracts []string
	Spawns        []string
	Err           string
	Ctx           *FnCtx
	Decided       []*OblResult // structural obligations decided without a solver
}

func (e *Engine) newCtx(fn *ssa.Function, ct *FuncContract) *FnCtx {
	c := &FnCtx{eng: e, vc: NewVC(), fn: fn, contract: ct,
		heapNames: map[string]Sort{}, subFuncs: map[string]int{}, funcRefs: map[string]bool{}, typeTags: map[string]int{},
		strLits: map[string]Term{}, strLitText: map[string]string{}, abstracted: map[string]bool{}, assumptions: map[string]bool{},
		trusted: map[string]bool{}, frameWrites: map[string][]Term{}, oblCount: map[string]int{}, checks: map[string]bool{},
		usedContracts: map[string]bool{}, subRoots: map[string]Term{}, trustedCalls: map[string]int{}, strLenDone: map[string]bool{}, selectIdx: map[*ssa.Select]Term{}, subDone: map[string]bool{}, subIDs: map[string]int{}}
	if ct != nil {
		c.modeBV = ct.Modes["bv"]
		c.modeFP = ct.Modes["fp"]
		c.modeWrap = ct.Modes["wrap"]
		c.modePaths = ct.Modes["paths"]
		c.props = ct.Props
		for k := range ct.Checks {
			c.checks[k] = true
		}
		if len(ct.Checks) > 0 {
			for _, k := range strings.Fields(os.Getenv("GOVC_EXTRA_CHECKS")) {
				c.checks[k] = true
			}
		}
	}
	return c
}

// VerifyFunc generates the obligations of one function under contract.
func (e *Engine) VerifyFunc(key string) (res *FnResult) {
	res = &FnResult{Key: key}
	ct := e.cs.Funcs[key]
	fn := e.funcs[key]
	if fn == nil {
		res.Err = "contract target does not exist: " + key
		return
	}
	if fn.Blocks == nil {
		res.Err = "contract target has no body: " + key
		return
	}
	sweepOnly := ct != nil && ct.Opaque && ct.Sweep
	if ct != nil && ct.Opaque && !ct.Sweep {
		// assumed contract: only its structural obligations are checked
		if _, ok := ct.Attrs["deterministic"]; ok {
			d := e.deterministic(fn)
			d.obl = &Obligation{Name: d.Name, Props: ct.Props, Kind: "prove", vc: NewVC()}
			res.Decided = append(res.Decided, d)
		}
		return
	}
	c := e.newCtx(fn, ct)
	activeVC = c.vc
	res.Ctx = c
	defer func() {
		if r := recover(); r != nil {
			if se, ok := r.(specError); ok {
				res.Err = "spec error: " + se.msg
				return
			}
			panic(r)
		}
	}()
	fr := c.newFrame(fn, 0)
	fr.contract = ct
	st := &State{pc: TTrue, cells: map[cellKey]SV{}, heap: map[string]Term{}, armed: map[*ssa.Defer]Term{}}
	// parameters
	for i, p := range fn.Params {
		v := c.freshValue(p.Type(), "p$"+p.Name())
		fr.regs[p] = v
		c.assumeAllocatedSV(st, v, p.Type())
		c.watchValue("param "+p.Name(), v)
		c.watchFields(st, p.Name(), v, p.Type())
		if i == 0 && fn.Signature.Recv() != nil {
			if s, ok := v.(Sc); ok {
				if _, isPtr := p.Type().Underlying().(*types.Pointer); isPtr {
					c.vc.Assert(Not(Eq(s.T, IntLit(0))))
					c.assume("A-recv-nonnil: methods are called on non-nil receivers")
				}
			}
		}
	}
	for i, fv := range fn.FreeVars {
		v := c.freshValue(fv.Type(), "fv$"+fv.Name())
		fr.free = append(fr.free, v)
		if sc, ok := v.(Sc); ok {
			// the address of a captured variable is never nil
			c.vc.Assert(Not(Eq(sc.T, IntLit(0))))
		}
		_ = i
	}
	c.regexGlobalFacts(st)
	c.initial = st.clone()
	env := c.specEnv(fr, st)
	env.useCells = false
	var reqs []Term
	if ct != nil {
		for i := range ct.Requires {
			reqs = append(reqs, c.safeEvalBool(env, &ct.Requires[i]))
		}
	}
	st.pc = c.vc.Name("pc", And(reqs...))
	cov := c.addObl("vacuity", "requires-sat", nil, st, TFalse, nil)
	cov.Kind = "cover"
	if !sweepOnly {
		c.buildFrameSpec(fr, st)
	}
	c.buildGuards(fr, st)
	c.setupOG(fr, st)
	c.assertAll(fr)
	c.hookedAll(fr)
	c.ownVars(fr)
	c.cancellable(fr)
	c.runFunction(fr, st)
	// postconditions
	var retPCs []Term
	for _, r := range fr.rets {
		retPCs = append(retPCs, r.st.pc)
		if ct == nil {
			continue
		}
		penv := c.specEnv(fr, r.st)
		penv.useCells = false
		var res SV
		switch len(r.res) {
		case 0:
		case 1:
			res = r.res[0]
		default:
			res = Tu{Elems: r.res}
		}
		c.bindResults(penv, fn.Signature, res)
		for i := range ct.Ensures {
			cl := &ct.Ensures[i]
			g := c.safeEvalBool(penv, cl)
			o := c.addObl("post", cl.Label, cl.Props, r.st, g, cl)
			_ = o
		}
	}
	if len(fr.rets) > 0 {
		tmp := &State{pc: Or(retPCs...)}
		cv := c.addObl("vacuity", "return-reachable", nil, tmp, TFalse, nil)
		cv.Kind = "cover"
		// each return on its own: an unreachable return usually means contradictory
		// assumptions on that path (reported as a note, see judge)
		if len(fr.rets) > 1 {
			for _, pcT := range retPCs {
				t2 := &State{pc: pcT}
				cr := c.addObl("vacuity", "each-return", nil, t2, TFalse, nil)
				cr.Kind = "cover"
			}
		}
	}
	c.emitFrameObligations(st)
	c.emitGuardObligations()
	if ct != nil {
		if _, ok := ct.Attrs["deterministic"]; ok {
			d := e.deterministic(fn)
			d.obl = &Obligation{Name: d.Name, Props: c.props, Kind: "prove", vc: c.vc}
			res.Decided = append(res.Decided, d)
		}
		if nr, ok := ct.Attrs["noreach"]; ok {
			res.Decided = append(res.Decided, e.noReach(fn, strings.Split(nr, ","))...)
			for _, d := range res.Decided {
				d.obl = &Obligation{Name: d.Name, Props: c.props, Kind: "prove", vc: c.vc}
			}
		}
	}
	res.Obls = c.obls
	if sweepOnly {
		// safety sweep of an otherwise assumed contract: only the implicit-panic obligations
		res.Obls = nil
		for _, o := range c.obls {
			keepPost := false
			if o.Class == "post" && o.Clause != nil && o.Clause.Label != "" {
				// `attr proved l1,l2`: these postconditions of the otherwise assumed contract are proved
				for _, l := range strings.Fields(strings.ReplaceAll(ct.Attrs["proved"], ",", " ")) {
					if l == o.Clause.Label {
						keepPost = true
					}
				}
			}
			if keepPost || strings.HasPrefix(o.Class, "safe:") || o.Class == "inv-entry" || o.Class == "inv-pres" || o.Class == "variant" || o.Class == "assert" || (o.Class == "vacuity" && strings.HasSuffix(o.Name, "requires-sat")) {
				res.Obls = append(res.Obls, o)
			}
		}
	}
	res.Decided = append(res.Decided, c.decided...)
	res.Abstracted = sortedKeys(c.abstracted)
	res.Assumptions = sortedKeys(c.assumptions)
	res.Trusted = sortedKeys(c.trusted)
	res.UsedContracts = sortedKeys(c.usedContracts)
	res.Spawns = c.spawns
	return
}

// watchFields asks for the entry values of the scalar fields of an object parameter.
func (c *FnCtx) watchFields(st *State, name string, v SV, t types.Type) {
	pt, ok := t.Underlying().(*types.Pointer)
	if !ok {
		return
	}
	s := structOf(pt.Elem())
	ref, isRef := v.(Sc)
	if s == nil || !isRef {
		return
	}
	for i := 0; i < s.NumFields(); i++ {
		f := s.Field(i)
		if c.scalarSort(f.Type()) == "" {
			continue
		}
		if _, isFn := f.Type().Underlying().(*types.Signature); isFn {
			continue
		}
		fv := c.loadLoc(st, fieldLoc(pt.Elem(), i, ref.T))
		c.watchValue(name+"."+f.Name(), fv)
	}
}

func (c *FnCtx) watchValue(name string, v SV) {
	switch x := v.(type) {
	case Sc:
		c.vc.Watch(name, x.T)
	case Sl:
		c.vc.Watch(name+".len", x.Len)
	case If:
		c.vc.Watch(name+".tag", x.Tag)
	case St:
		for i, f := range x.Fields {
			c.watchValue(fmt.Sprintf("%s.%d", name, i), f)
		}
	}
}

func sortedKeys(m map[string]bool) []string {
	var out []string
	for k := range m {
		out = append(out, k)
	}
	sort.Strings(out)
	return out
}

// VerifyLemma turns a lemma into one obligation per ensures clause.
func (e *Engine) VerifyLemma(l *LemmaDef) *FnResult {
	res := &FnResult{Key: l.Pkg + "::lemma:" + l.Name}
	c := e.newCtx(nil, nil)
	activeVC = c.vc
	c.modeBV = l.Modes["bv"]
	c.modeFP = l.Modes["fp"]
	c.props = l.Props
	res.Ctx = c
	defer func() {
		if r := recover(); r != nil {
			if se, ok := r.(specError); ok {
				res.Err = "spec error in lemma " + l.Name + ": " + se.msg
				return
			}
			panic(r)
		}
	}()
	st := &State{pc: TTrue, cells: map[cellKey]SV{}, heap: map[string]Term{}, armed: map[*ssa.Defer]Term{}}
	c.initial = st.clone()
	pkg := e.typesPkg(l.Pkg)
	env := &SpecEnv{c: c, st: st, old: c.initial, vars: map[string]bound{}, pkg: pkg}
	for _, p := range l.Vars {
		t := e.specType(pkg, p.Type)
		var v SV
		if isUntypedSpec(t) {
			v = Sc{c.vc.Const("l$"+p.Name, c.specSort(t))}
		} else {
			v = c.freshValue(t, "l$"+p.Name)
		}
		env.vars[p.Name] = bound{v, t}
		c.watchValue(p.Name, v)
	}
	var reqs []Term
	for i := range l.Requires {
		reqs = append(reqs, c.safeEvalBool(env, &l.Requires[i]))
	}
	st.pc = And(reqs...)
	pkgName := "lemma"
	if pkg != nil {
		pkgName = pkg.Name()
	}
	mk := func(class, label string, goal Term, cl *Clause, kind string) {
		name := pkgName + ".lemma:" + l.Name + "/" + class
		if label != "" {
			name += ":" + label
		}
		res.Obls = append(res.Obls, &Obligation{Name: name, Class: class, Props: l.Props, Hyp: st.pc, Goal: goal, NAsserts: -1, Clause: cl, Kind: kind, vc: c.vc, FuncKey: res.Key})
	}
	mk("vacuity", "requires-sat", TFalse, nil, "cover")
	for i := range l.Ensures {
		cl := &l.Ensures[i]
		lbl := cl.Label
		if lbl == "" {
			lbl = fmt.Sprintf("%d", i+1)
		}
		mk("lemma", lbl, c.safeEvalBool(env, cl), cl, "prove")
	}
	res.Abstracted = sortedKeys(c.abstracted)
	res.Assumptions = sortedKeys(c.assumptions)
	res.Trusted = sortedKeys(c.trusted)
	return res
}

// ---------------------------------------------------------------------------------------

type OblResult struct {
	Name   string      `json:"name"`
	Class  string      `json:"class"`
	Func   string      `json:"func"`
	Kind   string      `json:"kind"`
	Status string      `json:"status"` // discharged | refuted | undecided | cover-ok | cover-failed
	Clause string      `json:"clause,omitempty"`
	Where  string      `json:"where,omitempty"`
	Quote  string      `json:"property_sentence,omitempty"`
	Solve  SolveResult `json:"solve"`
	obl    *Obligation
}

func hasProp(props []string, p string) bool {
	for _, x := range props {
		if x == p {
			return true
		}
	}
	return false
}

func solveAll(obls []*Obligation, timeout int, seed int, agree bool, par int) []*OblResult {
	out := make([]*OblResult, len(obls))
	sem := make(chan struct{}, par)
	var wg sync.WaitGroup
	for i, o := range obls {
		i, o := i, o
		wg.Add(1)
		go func() {
			defer wg.Done()
			sem <- struct{}{}
			defer func() { <-sem }()
			r := &OblResult{Name: o.Name, Class: o.Class, Func: o.FuncKey, Kind: o.Kind, obl: o, Where: o.Where}
			if o.Clause != nil {
				r.Clause = o.Clause.Text
				r.Quote = o.Clause.Quote
			}
			goal := o.Goal
			if o.Kind == "cover" {
				goal = TFalse
			}
			// trivial cases without calling a solver
			if o.Kind == "prove" && goal.IsTrue() {
				r.Status = "discharged"
				r.Solve = SolveResult{Status: "unsat", Winner: "trivial"}
				out[i] = r
				return
			}
			if o.Kind == "prove" && syntacticallyImplied(o.vc, o.Hyp, goal) {
				r.Status = "discharged"
				r.Solve = SolveResult{Status: "unsat", Winner: "syntactic (goal is a conjunct of the hypothesis)"}
				out[i] = r
				return
			}
			q := o.vc.Query(o.Hyp, goal, o.NAsserts, true)
			t0 := time.Now()
			tmo := timeout
			if o.Kind == "cover" && tmo > 6 {
				tmo = 6
			}
			sr := Solve(q, tmo, seed, agree && o.Kind == "prove")
			if o.Kind == "prove" && !agree && sr.Status != "unsat" && sr.Status != "sat" && sr.Status != "contradiction" {
				// undecided within the limit: quantifier instantiation is sensitive to the random
				// seed, so one more attempt with another seed before the obligation counts as
				// undecided (a timeout that depends on the seed must not become an alarm)
				if sr2 := Solve(q, (tmo+1)/2, seed+7919, false); sr2.Status == "unsat" || sr2.Status == "sat" {
					sr2.Answers = append(sr.Answers, sr2.Answers...)
					sr = sr2
				}
			}
			_ = t0
			r.Solve = sr
			switch o.Kind {
			case "cover":
				switch sr.Status {
				case "sat":
					r.Status = "cover-ok"
				case "unsat":
					r.Status = "cover-failed"
				default:
					// quantified axioms often make consistency checks come back `unknown`: that
					// is not evidence of inconsistency
					r.Status = "cover-unknown"
				}
				r.Solve.Model = nil
			default:
				switch sr.Status {
				case "unsat":
					r.Status = "discharged"
				case "sat":
					r.Status = "refuted"
				default:
					r.Status = "undecided"
				}
			}
			out[i] = r
		}()
	}
	wg.Wait()
	return out
}

func shortErr(s string) string {
	if i := strings.Index(s, "\n"); i >= 0 {
		return s[:i]
	}
	return s
}

// buildGuards reads `attr guarded <obj> <mutex> [exempt f,g]` from the contract.
func (c *FnCtx) buildGuards(fr *Frame, st *State) {
	ct := fr.contract
	if ct == nil {
		return
	}
	spec, ok := ct.Attrs["guarded"]
	if !ok {
		return
	}
	fs := strings.Fields(spec)
	if len(fs) < 2 {
		c.eng.errorf("%s: attr guarded OBJ MUTEX [exempt a,b]", ct.Name)
		return
	}
	env := c.specEnv(fr, st)
	env.useCells = false
	defer func() {
		if r := recover(); r != nil {
			if se, ok := r.(specError); ok {
				c.eng.errorf("%s: attr guarded: %s", ct.Name, se.msg)
				return
			}
			panic(r)
		}
	}()
	ox, err := parseSpecExpr(fs[0])
	if err != nil {
		c.eng.errorf("%v", err)
		return
	}
	mx, err := parseSpecExpr(fs[1])
	if err != nil {
		c.eng.errorf("%v", err)
		return
	}
	ov, ot := env.eval(ox)
	mv, mt := env.eval(mx)
	o, _ := env.scalar(ov, ot)
	m, _ := env.scalar(mv, mt)
	g := guardSpec{Obj: o, Mu: m, Exempt: map[string]bool{}, ObjType: derefType(ot)}
	if len(fs) >= 4 && fs[2] == "exempt" {
		for _, f := range strings.Split(fs[3], ",") {
			g.Exempt[f] = true
		}
	}
	c.guards = append(c.guards, g)
}

func (c *FnCtx) emitGuardObligations() {
	var names []string
	for n := range c.guardObls {
		names = append(names, n)
	}
	sort.Strings(names)
	for _, n := range names {
		tmp := &State{pc: TTrue}
		o := c.addObl("held", n, nil, tmp, And(c.guardObls[n]...), nil)
		o.Note = "every access to field " + n + " happens while the guarding mutex is held"
	}
}

// relock: lock-invariant reasoning. The first acquisition of a guarding mutex starts the
// function's critical section (its contract's old() state). Every *later* acquisition comes
// after a window in which other threads may have changed everything the mutex protects, so
// the guarded object's fields (and the contents of its maps) are havocked.
func (c *FnCtx) relock(st *State, mu Term) {
	if c.lockCount == nil {
		c.lockCount = map[string]int{}
	}
	c.lockCount[mu.S]++
	if c.lockCount[mu.S] < 2 || c.inSpec > 0 {
		return
	}
	for _, g := range c.guards {
		if g.Mu.S != mu.S || g.ObjType == nil {
			continue
		}
		s := structOf(g.ObjType)
		if s == nil {
			continue
		}
		c.noFrame++
		for i := 0; i < s.NumFields(); i++ {
			f := s.Field(i)
			if g.Exempt[f.Name()] || structOf(f.Type()) != nil {
				continue
			}
			loc := fieldLoc(g.ObjType, i, g.Obj)
			if m, ok := f.Type().Underlying().(*types.Map); ok {
				// the map object is the same, its contents are not
				ref := c.readLeaf(st, loc, Leaf{"", SInt})
				for name, srt := range c.mapHeapNames(m) {
					h := c.heapGet(st, name, srt)
					inner := SInt
					if name != "maplen" {
						inner = Sort(strings.TrimSuffix(strings.TrimPrefix(string(srt), "(Array Int "), ")"))
					}
					c.heapSet(st, name, c.vc.Name("h", Store(h, ref, c.vc.Fresh("relock$map", inner))))
				}
				continue
			}
			c.havocLoc(st, loc, 0)
		}
		c.noFrame--
	}
}

// syntacticallyImplied: the goal is literally one of the conjuncts of the hypothesis (after
// expanding named path conditions). Used for preconditions that are passed through unchanged.
func syntacticallyImplied(vc *VC, hyp, goal Term) bool {
	seen := map[string]bool{}
	var visit func(s string, depth int) bool
	visit = func(s string, depth int) bool {
		if s == goal.S {
			return true
		}
		if depth > 60 || seen[s] {
			return false
		}
		seen[s] = true
		if d, ok := vc.nameDefs[s]; ok {
			return visit(d, depth+1)
		}
		if strings.HasPrefix(s, "(and ") {
			for _, a := range splitArgs(s)[1:] {
				if visit(a, depth+1) {
					return true
				}
			}
		}
		return false
	}
	return visit(hyp.S, 0)
}
