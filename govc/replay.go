package main

import (
	"bytes"
	"sort"
	"context"
	"encoding/json"
	"fmt"
	"os"
	"os/exec"
	"path/filepath"
	"regexp"
	"strings"
	"text/template"
	"time"
)

// model values by watch name
func parseModel(o *Obligation, lines []string) map[string]string {
	out := map[string]string{}
	byTerm := map[string]string{}
	for _, w := range o.vc.watch {
		byTerm[w.T.S] = w.Name
	}
	text := strings.Join(lines, "\n")
	// each get-value answer has the shape ((term value))
	for term, name := range byTerm {
		idx := strings.Index(text, "(("+term+" ")
		if idx < 0 {
			continue
		}
		rest := text[idx+len("(("+term+" "):]
		// value runs to the matching "))"
		depth := 0
		end := -1
		for i := 0; i < len(rest); i++ {
			switch rest[i] {
			case '(':
				depth++
			case ')':
				if depth == 0 {
					end = i
				}
				depth--
			}
			if end >= 0 {
				break
			}
		}
		if end > 0 {
			out[name] = strings.TrimSpace(rest[:end])
		}
	}
	return out
}

var bvHex = regexp.MustCompile(`^#x([0-9a-fA-F]+)$`)
var bvBin = regexp.MustCompile(`^#b([01]+)$`)
var bvDec = regexp.MustCompile(`^\(_ bv([0-9]+) [0-9]+\)$`)
var negInt = regexp.MustCompile(`^\(- ([0-9]+)\)$`)
var fpLit = regexp.MustCompile(`^\(fp #b([01]) #b([01]+) #[bx]([0-9a-fA-F]+)\)$`)

// smtToGo converts a model value into a Go literal (best effort).
func smtToGo(v string) string {
	v = strings.TrimSpace(v)
	if m := bvHex.FindStringSubmatch(v); m != nil {
		return "0x" + m[1]
	}
	if m := bvBin.FindStringSubmatch(v); m != nil {
		return "0b" + m[1]
	}
	if m := bvDec.FindStringSubmatch(v); m != nil {
		return m[1]
	}
	if m := negInt.FindStringSubmatch(v); m != nil {
		return "-" + m[1]
	}
	switch {
	case strings.HasPrefix(v, "(_ +zero"):
		return "0.0"
	case strings.HasPrefix(v, "(_ -zero"):
		return "math.Copysign(0, -1)"
	case strings.HasPrefix(v, "(_ +oo"):
		return "math.Inf(1)"
	case strings.HasPrefix(v, "(_ -oo"):
		return "math.Inf(-1)"
	case strings.HasPrefix(v, "(_ NaN"):
		return "math.NaN()"
	}
	if m := fpLit.FindStringSubmatch(v); m != nil {
		sign, exp, man := m[1], m[2], m[3]
		if !strings.HasPrefix(v, "(fp #b"+sign+" #b"+exp+" #b") {
			// hex mantissa (cvc5 prints binary; z3 prints hex for 52 bits): convert to binary
			var sb strings.Builder
			for _, c := range man {
				var n int
				fmt.Sscanf(string(c), "%x", &n)
				sb.WriteString(fmt.Sprintf("%04b", n))
			}
			man = sb.String()
		}
		bits := sign + exp + man
		if len(bits) == 64 {
			var u uint64
			for _, c := range bits {
				u = u<<1 | uint64(c-'0')
			}
			return fmt.Sprintf("math.Float64frombits(0x%016x)", u)
		}
	}
	if strings.HasPrefix(v, "(/ ") {
		parts := strings.Fields(strings.Trim(v, "()"))
		if len(parts) == 3 {
			return "(" + strings.TrimSuffix(parts[1], ".0") + ".0/" + strings.TrimSuffix(parts[2], ".0") + ".0)"
		}
	}
	if strings.HasPrefix(v, "(- ") {
		return "-" + smtToGo(strings.TrimSuffix(strings.TrimPrefix(v, "(- "), ")"))
	}
	return v
}

type ReplayFile struct {
	Property    string            `json:"property"`
	Obligation  string            `json:"obligation"`
	Function    string            `json:"function"`
	Status      string            `json:"status"`
	Clause      string            `json:"clause,omitempty"`
	Where       string            `json:"where,omitempty"`
	Sentence    string            `json:"property_sentence,omitempty"`
	Solvers     []SolverAnswer    `json:"solver_answers"`
	Model       map[string]string `json:"model,omitempty"`
	RawModel    []string          `json:"raw_model,omitempty"`
	Test        string            `json:"generated_test,omitempty"`
	TestPkgDir  string            `json:"test_package_dir,omitempty"`
	TestOutput  string            `json:"test_output,omitempty"`
	Confirmed   bool              `json:"replay_confirmed"`
	Note        string            `json:"note,omitempty"`
	When        string            `json:"when"`
}

func sanitize(s string) string {
	r := strings.NewReplacer("/", "_", ":", "_", "(", "", ")", "", "*", "p", "#", "_", " ", "_", "$", "_", "@", "_at_", "?", "q")
	return r.Replace(s)
}

// writeReplay stores the evidence for a failed obligation and, when a replay template exists
// for the function, runs the counterexample against the real code.
func writeReplay(e *Engine, dir, prop string, r *OblResult) (string, bool) {
	os.MkdirAll(dir, 0o755)
	path := filepath.Join(dir, sanitize(r.Name)+".json")
	rf := ReplayFile{Property: prop, Obligation: r.Name, Function: r.Func, Status: r.Status, Clause: r.Clause, Where: r.Where, Sentence: r.Quote,
		Solvers: r.Solve.Answers, RawModel: r.Solve.Model, When: time.Now().UTC().Format(time.RFC3339)}
	if r.Status == "refuted" && r.obl != nil {
		rf.Model = parseModel(r.obl, r.Solve.Model)
		ct := e.cs.Funcs[r.Func]
		// `replay template[:filter]`: the template applies to obligations whose name contains filter
		applies := ct != nil && ct.Replay != ""
		if applies {
			if i := strings.Index(ct.Replay, ":"); i >= 0 {
				applies = strings.Contains(r.Name, ct.Replay[i+1:])
			}
		}
		if applies {
			runReplayTemplate(e, ct, r, &rf)
		} else {
			rf.Note = "no replay template for this function; counterexample is the solver model above"
		}
	} else if r.Status == "undecided" {
		rf.Note = "no solver produced a definitive answer within the timeout; obligation was discharged on the unchanged tree"
	} else if r.Status == "cover-failed" {
		rf.Note = "reachability check failed: under the precondition no execution reaches a return"
	}
	b, _ := json.MarshalIndent(rf, "", " ")
	os.WriteFile(path, b, 0o644)
	return path, rf.Confirmed
}

// runReplayTemplate instantiates /verif/replay/templates/<name>.go.tmpl with the model and
// runs it inside the target package with `go test -overlay`.
func runReplayTemplate(e *Engine, ct *FuncContract, r *OblResult, rf *ReplayFile) {
	tname := ct.Replay
	if i := strings.Index(tname, ":"); i >= 0 {
		tname = tname[:i]
	}
	tmplPath := filepath.Join(verifDir(), "replay", "templates", tname+".go.tmpl")
	src, err := os.ReadFile(tmplPath)
	if err != nil {
		rf.Note = "replay template missing: " + tmplPath
		return
	}
	goVals := map[string]string{}
	for k, v := range rf.Model {
		goVals[strings.TrimPrefix(k, "param ")] = smtToGo(v)
		goVals[strings.TrimPrefix(k, "ret ")] = smtToGo(v)
	}
	funcs := template.FuncMap{
		"val": func(name string) string {
			if v, ok := goVals[name]; ok {
				return v
			}
			return "0"
		},
		"has": func(name string) bool { _, ok := goVals[name]; return ok },
	}
	t, err := template.New("replay").Funcs(funcs).Parse(string(src))
	if err != nil {
		rf.Note = "replay template error: " + err.Error()
		return
	}
	var buf bytes.Buffer
	label := ""
	if r.obl != nil && r.obl.Clause != nil {
		label = r.obl.Clause.Label
	}
	if err := t.Execute(&buf, map[string]interface{}{"Model": goVals, "Obligation": r.Name, "Label": label, "Class": r.Class}); err != nil {
		rf.Note = "replay template error: " + err.Error()
		return
	}
	rf.Test = buf.String()
	pkgPath := ct.Pkg
	rel := strings.TrimPrefix(strings.TrimPrefix(pkgPath, modulePath), "/")
	pkgDir := filepath.Join(e.repo, rel)
	rf.TestPkgDir = pkgDir
	out, confirmed := runOverlayTest(e.repo, pkgDir, "zz_verif_replay_test.go", rf.Test, "TestVerifReplay")
	rf.TestOutput = out
	rf.Confirmed = confirmed
}

func runOverlayTest(repo, pkgDir, fileName, src, run string) (string, bool) {
	tmp, err := os.MkdirTemp("", "govc-replay-")
	if err != nil {
		return err.Error(), false
	}
	defer os.RemoveAll(tmp)
	testFile := filepath.Join(tmp, fileName)
	os.WriteFile(testFile, []byte(src), 0o644)
	ov := map[string]map[string]string{"Replace": {filepath.Join(pkgDir, fileName): testFile}}
	ob, _ := json.Marshal(ov)
	ovFile := filepath.Join(tmp, "overlay.json")
	os.WriteFile(ovFile, ob, 0o644)
	ctx, cancel := context.WithTimeout(context.Background(), 180*time.Second)
	defer cancel()
	cmd := exec.CommandContext(ctx, "go", "test", "-overlay", ovFile, "-vet=off", "-count=1", "-timeout", "60s", "-v", "-run", "^"+run+"$", ".")
	cmd.Dir = pkgDir
	cmd.Env = append(os.Environ(), "GOFLAGS=-mod=mod", "GOPROXY=off")
	var buf bytes.Buffer
	cmd.Stdout = &buf
	cmd.Stderr = &buf
	cmd.Run()
	s := buf.String()
	if len(s) > 6000 {
		s = s[:6000]
	}
	return s, strings.Contains(s, "REPLAY-CONFIRMED")
}

func cmdReplay(args []string) int {
	if len(args) < 1 {
		usage()
	}
	b, err := os.ReadFile(args[0])
	if err != nil {
		fmt.Fprintln(os.Stderr, err)
		return 2
	}
	var rf ReplayFile
	if err := json.Unmarshal(b, &rf); err != nil {
		fmt.Fprintln(os.Stderr, err)
		return 2
	}
	fmt.Printf("obligation: %s\nstatus: %s\nclause: %s\n", rf.Obligation, rf.Status, rf.Clause)
	if rf.Test == "" {
		fmt.Println("no generated test stored; solver output:")
		for _, a := range rf.Solvers {
			fmt.Printf("  %s: %s (%.2fs)\n", a.Solver, a.Status, a.Secs)
		}
		fmt.Println(rf.Note)
		return 0
	}
	out, confirmed := runOverlayTest(repoDir(), rf.TestPkgDir, "zz_verif_replay_test.go", rf.Test, "TestVerifReplay")
	fmt.Println(out)
	if confirmed {
		fmt.Println("REPLAY-CONFIRMED")
		return 1
	}
	return 0
}

// ---------------------------------------------------------------------------------------
// self-test corpus: deliberately broken (must-fail) and harmless variants of /repo files,
// applied in memory through packages.Config.Overlay.

type Mutant struct {
	ID       string `json:"id"`
	Property string `json:"property"`
	Kind     string `json:"kind"` // must-fail | harmless
	File     string `json:"file"` // relative to the repository root
	Replace  []struct {
		Old string `json:"old"`
		New string `json:"new"`
	} `json:"replace"`
	Expect []string `json:"expect"` // obligation groups of which at least one must fail
	Note   string   `json:"note"`
}

func runSelftest(args []string) int {
	dir := filepath.Join(verifDir(), "selftest", "mutants")
	files, _ := filepath.Glob(filepath.Join(dir, "*.json"))
	sort.Strings(files)
	only := map[string]bool{}
	for _, a := range args {
		only[a] = true
	}
	failed := 0
	ran := 0
	for _, f := range files {
		b, err := os.ReadFile(f)
		if err != nil {
			continue
		}
		var ms []Mutant
		if err := json.Unmarshal(b, &ms); err != nil {
			fmt.Printf("selftest: %s: %v\n", f, err)
			failed++
			continue
		}
		for _, m := range ms {
			if len(only) > 0 && !only[m.Property] && !only[m.ID] {
				continue
			}
			ran++
			path := filepath.Join(repoDir(), m.File)
			src, err := os.ReadFile(path)
			if err != nil {
				fmt.Printf("selftest: %s: %v\n", m.ID, err)
				failed++
				continue
			}
			text := string(src)
			ok := true
			for _, r := range m.Replace {
				if !strings.Contains(text, r.Old) {
					fmt.Printf("selftest: %s: pattern not found in %s: %q\n", m.ID, m.File, r.Old)
					ok = false
					break
				}
				text = strings.Replace(text, r.Old, r.New, 1)
			}
			if !ok {
				failed++
				continue
			}
			e, err := LoadEngine(repoDir(), map[string][]byte{path: []byte(text)}, filepath.Join(verifDir(), "contracts", "lib"))
			if err != nil {
				fmt.Printf("selftest: %s: mutant does not load: %v\n", m.ID, err)
				failed++
				continue
			}
			out := runProperty(e, m.Property, "quick", 0)
			notDischarged := map[string]string{}
			vd := judge(out, "quick", false)
			for _, r := range vd.Violations {
				notDischarged[baseName(r.Name)] = r.Status
			}

			var names []string
			for n, s := range notDischarged {
				names = append(names, n+"="+s)
			}
			sort.Strings(names)
			switch m.Kind {
			case "harmless":
				if len(notDischarged) > 0 || len(out.Errors) > 0 {
					fmt.Printf("selftest: FAIL %s (harmless variant raised: %v %v)\n", m.ID, names, out.Errors)
					failed++
				} else {
					fmt.Printf("selftest: ok   %s (harmless, no alarm)\n", m.ID)
				}
			default:
				hit := false
				for _, ex := range m.Expect {
					if _, ok := notDischarged[ex]; ok {
						hit = true
					}
				}
				if len(m.Expect) == 0 && len(notDischarged) > 0 {
					hit = true
				}
				if hit {
					fmt.Printf("selftest: ok   %s caught by %v\n", m.ID, names)
				} else {
					fmt.Printf("selftest: FAIL %s not caught (failing: %v, expected one of %v, errors %v)\n", m.ID, names, m.Expect, out.Errors)
					failed++
				}
			}
		}
	}
	fmt.Printf("selftest: %d mutants, %d failures\n", ran, failed)
	if failed > 0 {
		return 1
	}
	return 0
}
