package main

import (
	"fmt"
	"go/ast"
	"go/token"
	"go/types"
	"sort"
	"strings"

	"golang.org/x/tools/go/ssa"
)

// Owicki–Gries style reasoning over atomic actions (DESIGN.md §6.2).
//
// A function whose contract says `concurrent G` runs in an environment of other threads that
// execute atomic actions on the shared abstract state (channel len/closed, sync.Map contents,
// package ghost variables). Before each of its own atomic actions the shared state is
// havocked (arbitrary interference), then G and the thread's `stable` facts are assumed;
// after the action (and its ghost updates, clause `after OPKEY: x = e`) G must hold again
// (obligation og-guarantee). Each stable fact must hold immediately before every atomic
// action (obligation og-local) — that it is preserved by *other* threads' actions is argued
// from ownership and recorded as an assumption.

type ogAssign struct {
	Name string
	Expr ast.Expr
	Text string
}

type ogSpec struct {
	inv     *PredDef
	stables []Clause
	locals  map[string]*ogLocal
	afters  map[string][]ogAssign
	nonblk  map[string]bool
	keys    map[ssa.Instruction]string
	caseKey map[*ssa.Select][]string
	usedKey map[string]bool
}

type ogLocal struct {
	Name string
	Type types.Type
	key  cellKey
	Init ast.Expr
}

// valueName gives a stable source-level name for a channel / map operand.
func valueName(v ssa.Value) string {
	switch x := v.(type) {
	case *ssa.UnOp:
		if x.Op == token.MUL {
			return valueName(x.X)
		}
	case *ssa.FieldAddr:
		st := x.X.Type().Underlying().(*types.Pointer).Elem().Underlying().(*types.Struct)
		return st.Field(x.Field).Name()
	case *ssa.Field:
		st := x.X.Type().Underlying().(*types.Struct)
		return st.Field(x.Field).Name()
	case *ssa.Alloc:
		if x.Comment != "" {
			return x.Comment
		}
	case *ssa.Parameter:
		return x.Name()
	case *ssa.Global:
		return x.Name()
	case *ssa.FreeVar:
		return x.Name()
	case *ssa.Call:
		if x.Call.IsInvoke() && x.Call.Method.Name() == "Done" {
			return "done(" + valueName(x.Call.Value) + ")"
		}
		if f := x.Call.StaticCallee(); f != nil {
			return f.Name() + "()"
		}
	case *ssa.Extract:
		return valueName(x.Tuple)
	}
	return "?"
}

func opBaseKey(in ssa.Instruction) string {
	switch x := in.(type) {
	case *ssa.Send:
		return "send(" + valueName(x.Chan) + ")"
	case *ssa.UnOp:
		if x.Op == token.ARROW {
			return "recv(" + valueName(x.X) + ")"
		}
	case *ssa.Select:
		return "select"
	case *ssa.Call:
		if b, ok := x.Call.Value.(*ssa.Builtin); ok && b.Name() == "close" {
			return "close(" + valueName(x.Call.Args[0]) + ")"
		}
		if f := x.Call.StaticCallee(); f != nil && len(x.Call.Args) > 0 {
			return f.Name() + "(" + valueName(x.Call.Args[0]) + ")"
		}
		if f := x.Call.StaticCallee(); f != nil && len(x.Call.Args) == 0 && f.Pkg != nil && strings.HasPrefix(f.Pkg.Pkg.Path(), modulePath) {
			// argument-less call of a module function (pause.Resume(), stats.SeedsFinishedIncr());
			// a function of another package is named with its package
			caller := in.Parent()
			for caller != nil && caller.Pkg == nil && caller.Parent() != nil {
				caller = caller.Parent()
			}
			if caller != nil && caller.Pkg != nil && caller.Pkg != f.Pkg {
				return f.Pkg.Pkg.Name() + "." + f.Name() + "()"
			}
			return f.Name() + "()"
		}
		if x.Call.StaticCallee() == nil && !x.Call.IsInvoke() {
			if _, isB := x.Call.Value.(*ssa.Builtin); !isB {
				// call through a function value (a closure calling itself through its variable)
				return "dyn(" + valueName(x.Call.Value) + ")"
			}
		}
	case *ssa.Defer:
		if b, ok := x.Call.Value.(*ssa.Builtin); ok && b.Name() == "close" {
			return "close(" + valueName(x.Call.Args[0]) + ")"
		}
	case *ssa.Panic:
		// explicit panic sites of the source (compiler-generated ones carry no position)
		if x.Pos().IsValid() {
			v := x.X
			if mi, ok := v.(*ssa.MakeInterface); ok {
				v = mi.X
			}
			return "panic(" + valueName(v) + ")"
		}
	}
	return ""
}

func caseBaseKey(s *ssa.SelectState) string {
	if s.Dir == types.SendOnly {
		return "selsend(" + valueName(s.Chan) + ")"
	}
	return "selrecv(" + valueName(s.Chan) + ")"
}

// buildOpKeys numbers the atomic operations of a function in static order.
func (c *FnCtx) buildOpKeys(fn *ssa.Function) (map[ssa.Instruction]string, map[*ssa.Select][]string) {
	keys := map[ssa.Instruction]string{}
	cases := map[*ssa.Select][]string{}
	count := map[string]int{}
	mk := func(base string) string {
		count[base]++
		return fmt.Sprintf("%s#%d", base, count[base])
	}
	for _, b := range fn.Blocks {
		for _, in := range b.Instrs {
			if base := opBaseKey(in); base != "" {
				keys[in] = mk(base)
			}
			if sel, ok := in.(*ssa.Select); ok {
				for _, s := range sel.States {
					cases[sel] = append(cases[sel], mk(caseBaseKey(s)))
				}
			}
		}
	}
	return keys, cases
}

func (c *FnCtx) opKeyOf(fr *Frame, in ssa.Instruction) string {
	if fr.depth != 0 {
		return ""
	}
	if c.og != nil {
		return c.og.keys[in]
	}
	if c.opKeys != nil {
		return c.opKeys[in]
	}
	return ""
}

// callSiteAsserts: `assert OPKEY: expr` clauses are proved immediately before the operation.
func (c *FnCtx) callSiteAsserts(fr *Frame, st *State, in ssa.Instruction) {
	if fr.depth != 0 || fr.contract == nil || len(fr.contract.Asserts) == 0 || c.inSpec > 0 {
		return
	}
	if c.opKeys == nil {
		c.opKeys, _ = c.buildOpKeys(fr.fn)
		valid := map[string]bool{}
		var names []string
		for in, k := range c.opKeys {
			switch in.(type) {
			case *ssa.Defer, *ssa.Select:
				// assertions are not evaluated at these operations: naming one is an error
				continue
			}
			valid[k] = true
			names = append(names, k)
		}
		sort.Strings(names)
		for k := range fr.contract.Asserts {
			if strings.HasSuffix(k, "(*)") {
				// wildcard: every call of that callee, whatever its first argument
				found := false
				for _, n := range names {
					if strings.HasPrefix(n, strings.TrimSuffix(k, "*)")) {
						found = true
					}
				}
				if found {
					continue
				}
			}
			if !valid[k] {
				c.eng.errorf("%s: `assert %s` names no operation of the function (have: %s)", fr.contract.Name, k, strings.Join(names, ", "))
			}
		}
	}
	key := c.opKeys[in]
	if key == "" {
		return
	}
	cls := fr.contract.Asserts[key]
	wildN := 0
	if i := strings.Index(key, "("); i > 0 {
		if w := fr.contract.Asserts[key[:i]+"(*)"]; len(w) > 0 {
			cls = append(append([]Clause{}, cls...), w...)
			wildN = len(w)
		}
	}
	if len(cls) == 0 {
		return
	}
	env := c.specEnv(fr, st)
	// arg0, arg1, ...: the actual arguments of the call the assertion is attached to (arg0 is
	// the receiver of a method call)
	if ci, ok := in.(ssa.CallInstruction); ok {
		cc := ci.Common()
		k := 0
		if cc.IsInvoke() {
			env.vars["arg0"] = bound{c.val(fr, st, cc.Value), cc.Value.Type()}
			k = 1
		}
		for j, a := range cc.Args {
			env.vars[fmt.Sprintf("arg%d", j+k)] = bound{c.val(fr, st, a), a.Type()}
		}
	}
	for i := range cls {
		cl := &cls[i]
		g := c.safeEvalBool(env, cl)
		lbl := key
		if i >= len(cls)-wildN {
			// wildcard assertions are named by the ordinal of the call among the calls of
			// that callee, not by the name of its first argument
			lbl = c.wildKey(fr.fn, in, key)
		}
		if cl.Label != "" {
			lbl += ":" + cl.Label
		}
		c.addObl("assert", lbl, cl.Props, st, g, cl)
	}
}

// wildKey: Callee(*)#n where n counts the calls of Callee in static order.
func (c *FnCtx) wildKey(fn *ssa.Function, in ssa.Instruction, key string) string {
	base := key[:strings.Index(key, "(")]
	n := 0
	for _, b := range fn.Blocks {
		for _, x := range b.Instrs {
			if k := opBaseKey(x); strings.HasPrefix(k, base+"(") {
				n++
				if x == in {
					return fmt.Sprintf("%s(*)#%d", base, n)
				}
			}
		}
	}
	return key
}

func (c *FnCtx) caseKeyOf(fr *Frame, sel *ssa.Select, i int) string {
	if c.og == nil || fr.depth != 0 {
		return ""
	}
	ks := c.og.caseKey[sel]
	if i < len(ks) {
		return ks[i]
	}
	return ""
}

// setupOG reads the concurrency clauses of the contract.
func (c *FnCtx) setupOG(fr *Frame, st *State) {
	ct := fr.contract
	if ct == nil {
		return
	}
	name, conc := ct.Attrs["concurrent"]
	if !conc && len(ct.Locals) == 0 && len(ct.Afters) == 0 {
		return
	}
	pkg := c.eng.typesPkg(ct.Pkg)
	var pd *PredDef
	if conc {
		pd = c.eng.pred(pkg, strings.TrimSpace(name))
		if pd == nil {
			c.eng.errorf("%s: concurrent: unknown invariant predicate %q", ct.Name, name)
			return
		}
	}
	og := &ogSpec{inv: pd, locals: map[string]*ogLocal{}, afters: map[string][]ogAssign{}, nonblk: map[string]bool{}, usedKey: map[string]bool{}}
	og.keys, og.caseKey = c.buildOpKeys(fr.fn)
	og.stables = ct.Stables
	for i, l := range ct.Locals {
		t := c.eng.specType(pkg, l.Type)
		ol := &ogLocal{Name: l.Name, Type: t, key: cellKey{frame: -1, idx: i + 1}, Init: l.Init}
		og.locals[l.Name] = ol
	}
	for k, as := range ct.Afters {
		og.afters[k] = as
	}
	for _, k := range strings.Fields(strings.ReplaceAll(ct.Attrs["nonblock"], ",", " ")) {
		og.nonblk[k] = true
	}
	c.og = og
	if !conc {
		// sequential function with ghost locals / after-hooks only
		c.initOGLocals(fr, st, og)
		c.checkOGKeys(ct, og)
		return
	}
	// make the shared channel families known up front so that every interference point
	// havocs them explicitly (and records the monotonicity of `closed`)
	c.heapGet(st, "chan$closed", SArr(SInt, SBool))
	c.heapGet(st, "chan$len", SArr(SInt, SInt))
	c.heapGet(st, "chan$sent", SArr(SInt, SInt))
	c.heapGet(st, "chan$recvd", SArr(SInt, SInt))
	c.initOGLocals(fr, st, og)
	c.checkOGKeys(ct, og)
}

func (c *FnCtx) initOGLocals(fr *Frame, st *State, og *ogSpec) {
	// initialise thread-local ghosts
	env := c.specEnv(fr, st)
	for _, l := range og.locals {
		var v SV
		if l.Init != nil {
			iv, it := env.eval(l.Init)
			if k, isK := iv.(Kv); isK {
				v = Sc{env.constTo(k, c.specSort(l.Type), l.Type)}
			} else {
				_ = it
				v = iv
			}
		} else {
			v = c.zeroValue(l.Type)
		}
		st.cells[l.key] = v
	}
}

func (c *FnCtx) checkOGKeys(ct *FuncContract, og *ogSpec) {
	fr := &Frame{fn: c.fn, contract: ct}
	// every key named in the contract must exist
	valid := map[string]bool{}
	for _, k := range og.keys {
		valid[k] = true
	}
	for _, ks := range og.caseKey {
		for _, k := range ks {
			valid[k] = true
		}
	}
	var names []string
	for k := range valid {
		names = append(names, k)
	}
	sort.Strings(names)
	for k := range og.afters {
		if !strings.Contains(k, "#") {
			// base key without ordinal: valid if some operation has that base
			found := false
			for _, n := range names {
				if strings.HasPrefix(n, k+"#") {
					found = true
				}
			}
			if found {
				continue
			}
		}
		if strings.HasSuffix(k, "(*)") {
			found := false
			for _, n := range names {
				if strings.HasPrefix(n, strings.TrimSuffix(k, "*)")) {
					found = true
				}
			}
			if found {
				continue
			}
		}
		if !valid[k] {
			c.eng.errorf("%s: `after %s` names no atomic operation of the function (have: %s)", ct.Name, k, strings.Join(names, ", "))
		}
	}
	// structural: `attr noops X`: the function performs no atomic operation on X
	for _, nm := range strings.Fields(strings.ReplaceAll(ct.Attrs["noops"], ",", " ")) {
		r := &OblResult{Name: c.eng.shortFuncName(fr.fn) + "/noops:" + nm, Class: "noops", Func: c.eng.funcKey(fr.fn), Kind: "prove",
			Clause: "the function performs no channel / sync.Map operation on " + nm, Status: "discharged", Solve: SolveResult{Status: "unsat", Winner: "opkey-scan"}}
		for _, k := range names {
			if strings.Contains(k, "("+nm+")") {
				r.Status = "refuted"
				r.Solve = SolveResult{Status: "sat", Winner: "opkey-scan", Model: []string{"operation " + k}}
			}
		}
		r.obl = &Obligation{Name: r.Name, Props: c.props, Kind: "prove", vc: c.vc}
		c.decided = append(c.decided, r)
	}
	for k := range og.nonblk {
		if !valid[k] {
			c.eng.errorf("%s: `nonblock %s` names no atomic operation of the function (have: %s)", ct.Name, k, strings.Join(names, ", "))
		}
	}
}

func (c *FnCtx) ogInv(fr *Frame, st *State) Term {
	env := c.specEnv(fr, st)
	v, _ := env.applyPredVals(c.og.inv, nil)
	if s, ok := v.(Sc); ok {
		return s.T
	}
	return TTrue
}

// sharedFamilies: heaps other threads may change.
func sharedHeap(name string) bool {
	return strings.HasPrefix(name, "chan$") || strings.HasPrefix(name, "smap$") || strings.HasPrefix(name, "ghost$")
}

// ogBefore: interference point before an atomic action.
func (c *FnCtx) ogBefore(fr *Frame, st *State, key string) {
	if c.og == nil || c.og.inv == nil || fr.depth != 0 || c.inSpec > 0 {
		return
	}
	// the thread's stable facts must hold here
	env := c.specEnv(fr, st)
	for i := range c.og.stables {
		cl := &c.og.stables[i]
		g := c.safeEvalBool(env, cl)
		lbl := cl.Label
		if lbl == "" {
			lbl = fmt.Sprintf("%d", i+1)
		}
		c.addObl("og-local", lbl, cl.Props, st, g, cl)
	}
	c.ogInterfere(fr, st)
}

func (c *FnCtx) ogInterfere(fr *Frame, st *State) {
	// havoc shared state; channel capacity is immutable, closed is monotone
	var names []string
	for n := range c.heapNames {
		if sharedHeap(n) && n != "chan$cap" {
			names = append(names, n)
		}
	}
	sort.Strings(names)
	for _, n := range names {
		srt := c.heapNames[n]
		old := c.heapGet(st, n, srt)
		nw := c.vc.Fresh("og$"+strings.ReplaceAll(n, " ", ""), srt)
		if n == "chan$closed" {
			// closing is irreversible: instantiated for the context channels in use (no quantifier)
			c.closedHavocs = append(c.closedHavocs, [2]Term{old, nw})
			for _, ch := range c.doneChans {
				c.vc.Assert(Implies(Select(old, ch, SBool), Select(nw, ch, SBool)))
			}
		}
		st.heap[n] = nw
	}
	c.pendingShared = true
	c.epochs++
	st.sepoch = c.epochs
	// assume the global invariant and the stable facts in the new state
	facts := []Term{c.ogInv(fr, st)}
	env := c.specEnv(fr, st)
	for i := range c.og.stables {
		facts = append(facts, c.safeEvalBool(env, &c.og.stables[i]))
	}
	st.pc = c.vc.Name("pc", And(append([]Term{st.pc}, facts...)...))
}

// ogApplyAfters runs the ghost updates attached to an operation under condition g.
func (c *FnCtx) ogApplyAfters(fr *Frame, st *State, key string, g Term, results map[string]SV) {
	if c.og == nil || fr.depth != 0 || key == "" {
		return
	}
	as := c.og.afters[key]
	if i := strings.Index(key, "("); i > 0 {
		// wildcard hooks: `after Callee(*): ...` runs after every call of Callee
		if w := c.og.afters[key[:i]+"(*)"]; len(w) > 0 {
			as = append(append([]ogAssign{}, as...), w...)
			c.og.usedKey[key[:i]+"(*)"] = true
		}
	}
	if i := strings.LastIndex(key, "#"); i > 0 {
		// `after selrecv(done(ctx)): ...` (no ordinal): every operation with that base key
		if w := c.og.afters[key[:i]]; len(w) > 0 {
			as = append(append([]ogAssign{}, as...), w...)
			c.og.usedKey[key[:i]] = true
		}
	}
	if len(as) == 0 {
		return
	}
	c.og.usedKey[key] = true
	env := c.specEnv(fr, st)
	for k, v := range results {
		env.vars[k] = bound{v, c.ogResultTypes[k]}
	}
	// simultaneous assignment: evaluate all right-hand sides first
	type upd struct {
		a ogAssign
		v SV
		t types.Type
	}
	var ups []upd
	for _, a := range as {
		func() {
			defer func() {
				if r := recover(); r != nil {
					if se, ok := r.(specError); ok {
						c.eng.errorf("after %s: %s = %s: %s", key, a.Name, a.Text, se.msg)
						return
					}
					panic(r)
				}
			}()
			v, t := env.eval(a.Expr)
			ups = append(ups, upd{a, v, t})
		}()
	}
	for _, u := range ups {
		if l, ok := c.og.locals[u.a.Name]; ok {
			cur := st.cells[l.key]
			nv := u.v
			if k, isK := nv.(Kv); isK {
				nv = Sc{env.constTo(k, c.specSort(l.Type), l.Type)}
			}
			st.cells[l.key] = c.mergeSV(g, nv, cur)
			continue
		}
		if gd := c.eng.ghost(env.pkg, u.a.Name); gd != nil {
			t := c.eng.specType(c.eng.typesPkg(gd.Pkg), gd.Type)
			srt := c.specSort(t)
			name := "ghost$" + gd.Pkg + "." + gd.Name
			h := c.heapGet(st, name, SArr(SInt, srt))
			cur := Select(h, IntLit(0), srt)
			var nv Term
			if k, isK := u.v.(Kv); isK {
				nv = env.constTo(k, srt, t)
			} else {
				nv, _ = env.scalar(u.v, u.t)
			}
			c.heapSet(st, name, c.vc.Name("g", Store(h, IntLit(0), Ite(g, nv, cur))))
			continue
		}
		c.eng.errorf("after %s: %s is neither a thread-local nor a package ghost variable", key, u.a.Name)
	}
}

func (c *FnCtx) ogGuarantee(fr *Frame, st *State, key string) {
	if c.og == nil || c.og.inv == nil || fr.depth != 0 || c.inSpec > 0 {
		return
	}
	g := c.ogInv(fr, st)
	o := c.addObl("og-guarantee", key, nil, st, g, nil)
	o.Note = "the global invariant holds again after atomic action " + key
}

func (c *FnCtx) ogAfter(fr *Frame, st *State, key string, results map[string]SV) {
	if c.og == nil || fr.depth != 0 || c.inSpec > 0 {
		return
	}
	c.ogApplyAfters(fr, st, key, TTrue, results)
	c.ogGuarantee(fr, st, key)
}

// nonblock: the operation is claimed never to block: enabledness must follow from the
// invariant and the thread's facts.
func (c *FnCtx) nonblock(fr *Frame, st *State, key string, enabled Term) {
	if c.og == nil || c.og.inv == nil || fr.depth != 0 || key == "" || !c.og.nonblk[key] {
		return
	}
	o := c.addObl("nonblock", key, nil, st, enabled, nil)
	o.Note = "operation " + key + " can always complete (never blocks)"
}

// ---------------------------------------------------------------------------------------
// sync.Map as an abstract set/map: smap$dom[m][key], smap$val$tag/id[m][key], smap$card[m]

func (c *FnCtx) smapKey(v SV) Term {
	if iv, ok := v.(If); ok {
		return iv.ID
	}
	return c.vc.Fresh("smapkey", SInt)
}

func (e *Engine) initSyncMap() {
	type op struct {
		name string
		fn   func(c *FnCtx, st *State, m Term, args []SV, rt types.Type) SV
	}
	domS := SArr(SInt, SArr(SInt, SBool))
	valS := SArr(SInt, SArr(SInt, SInt))
	dom := func(c *FnCtx, st *State, m Term) (Term, Term) {
		h := c.heapGet(st, "smap$dom", domS)
		return h, Select(h, m, SArr(SInt, SBool))
	}
	card := func(c *FnCtx, st *State, m Term) Term {
		h := c.heapGet(st, "smap$card", SArr(SInt, SInt))
		v := Select(h, m, SInt)
		c.vc.Assert(App(SBool, ">=", v, IntLit(0)))
		return v
	}
	setCard := func(c *FnCtx, st *State, m, v Term) {
		h := c.heapGet(st, "smap$card", SArr(SInt, SInt))
		c.heapSet(st, "smap$card", c.vc.Name("h", Store(h, m, v)))
	}
	setDom := func(c *FnCtx, st *State, m, key, present Term) {
		h, d := dom(c, st, m)
		c.heapSet(st, "smap$dom", c.vc.Name("h", Store(h, m, Store(d, key, present))))
	}
	getVal := func(c *FnCtx, st *State, m, key Term) If {
		ht := c.heapGet(st, "smap$val$tag", valS)
		hi := c.heapGet(st, "smap$val$id", valS)
		return If{Tag: Select(Select(ht, m, SArr(SInt, SInt)), key, SInt), ID: Select(Select(hi, m, SArr(SInt, SInt)), key, SInt)}
	}
	setVal := func(c *FnCtx, st *State, m, key Term, v If) {
		ht := c.heapGet(st, "smap$val$tag", valS)
		hi := c.heapGet(st, "smap$val$id", valS)
		c.heapSet(st, "smap$val$tag", c.vc.Name("h", Store(ht, m, Store(Select(ht, m, SArr(SInt, SInt)), key, v.Tag))))
		c.heapSet(st, "smap$val$id", c.vc.Name("h", Store(hi, m, Store(Select(hi, m, SArr(SInt, SInt)), key, v.ID))))
	}
	nilIf := If{Tag: IntLit(0), ID: IntLit(0)}
	ops := []op{
		{"Load", func(c *FnCtx, st *State, m Term, args []SV, rt types.Type) SV {
			k := c.smapKey(args[1])
			_, d := dom(c, st, m)
			has := Select(d, k, SBool)
			return Tu{Elems: []SV{c.mergeSV(has, getVal(c, st, m, k), nilIf), Sc{has}}}
		}},
		{"Store", func(c *FnCtx, st *State, m Term, args []SV, rt types.Type) SV {
			k := c.smapKey(args[1])
			_, d := dom(c, st, m)
			has := Select(d, k, SBool)
			setCard(c, st, m, App(SInt, "+", card(c, st, m), Ite(has, IntLit(0), IntLit(1))))
			setDom(c, st, m, k, TTrue)
			setVal(c, st, m, k, c.toIface(args[2], nil))
			return nil
		}},
		{"LoadOrStore", func(c *FnCtx, st *State, m Term, args []SV, rt types.Type) SV {
			k := c.smapKey(args[1])
			_, d := dom(c, st, m)
			has := c.vc.Name("smhas", Select(d, k, SBool))
			old := getVal(c, st, m, k)
			nv := c.toIface(args[2], nil)
			setCard(c, st, m, App(SInt, "+", card(c, st, m), Ite(has, IntLit(0), IntLit(1))))
			setDom(c, st, m, k, TTrue)
			setVal(c, st, m, k, c.mergeSV(has, old, nv).(If))
			return Tu{Elems: []SV{c.mergeSV(has, old, nv), Sc{has}}}
		}},
		{"LoadAndDelete", func(c *FnCtx, st *State, m Term, args []SV, rt types.Type) SV {
			k := c.smapKey(args[1])
			_, d := dom(c, st, m)
			has := c.vc.Name("smhas", Select(d, k, SBool))
			old := getVal(c, st, m, k)
			setCard(c, st, m, App(SInt, "-", card(c, st, m), Ite(has, IntLit(1), IntLit(0))))
			setDom(c, st, m, k, TFalse)
			return Tu{Elems: []SV{c.mergeSV(has, old, nilIf), Sc{has}}}
		}},
		{"Delete", func(c *FnCtx, st *State, m Term, args []SV, rt types.Type) SV {
			k := c.smapKey(args[1])
			_, d := dom(c, st, m)
			has := c.vc.Name("smhas", Select(d, k, SBool))
			setCard(c, st, m, App(SInt, "-", card(c, st, m), Ite(has, IntLit(1), IntLit(0))))
			setDom(c, st, m, k, TFalse)
			return nil
		}},
		{"CompareAndDelete", func(c *FnCtx, st *State, m Term, args []SV, rt types.Type) SV {
			// deletes the entry iff it is present with an equal value (values compared by identity)
			k := c.smapKey(args[1])
			_, d := dom(c, st, m)
			old := getVal(c, st, m, k)
			want := c.toIface(args[2], nil)
			del := c.vc.Name("smdel", And(Select(d, k, SBool), Eq(old.Tag, want.Tag), Eq(old.ID, want.ID)))
			setCard(c, st, m, App(SInt, "-", card(c, st, m), Ite(del, IntLit(1), IntLit(0))))
			h, dd := dom(c, st, m)
			c.heapSet(st, "smap$dom", c.vc.Name("h", Store(h, m, Store(dd, k, Ite(del, TFalse, Select(dd, k, SBool))))))
			return Sc{del}
		}},
		{"CompareAndSwap", func(c *FnCtx, st *State, m Term, args []SV, rt types.Type) SV {
			k := c.smapKey(args[1])
			_, d := dom(c, st, m)
			old := getVal(c, st, m, k)
			want := c.toIface(args[2], nil)
			sw := c.vc.Name("smcas", And(Select(d, k, SBool), Eq(old.Tag, want.Tag), Eq(old.ID, want.ID)))
			nv := c.toIface(args[3], nil)
			setVal(c, st, m, k, c.mergeSV(sw, nv, old).(If))
			return Sc{sw}
		}},
		{"Swap", func(c *FnCtx, st *State, m Term, args []SV, rt types.Type) SV {
			k := c.smapKey(args[1])
			_, d := dom(c, st, m)
			has := c.vc.Name("smhas", Select(d, k, SBool))
			old := getVal(c, st, m, k)
			setCard(c, st, m, App(SInt, "+", card(c, st, m), Ite(has, IntLit(0), IntLit(1))))
			setDom(c, st, m, k, TTrue)
			setVal(c, st, m, k, c.toIface(args[2], nil))
			return Tu{Elems: []SV{c.mergeSV(has, old, nilIf), Sc{has}}}
		}},
	}
	// set/cardinality link: a present key means the set is not empty
	link := func(c *FnCtx, st *State, m Term, args []SV) {
		if len(args) < 2 {
			return
		}
		k := c.smapKey(args[1])
		_, d := dom(c, st, m)
		c.vc.Assert(Implies(Select(d, k, SBool), App(SBool, ">=", card(c, st, m), IntLit(1))))
	}
	// methods without a precise model: everything the map holds is unknown afterwards, and a
	// callback (Range) may do anything
	for _, name := range []string{"Range", "Clear"} {
		e.externs["(*sync.Map)."+name] = &externHandler{note: "sync.Map." + name + " abstracted (all state unknown afterwards)", fn: func(c *FnCtx, st *State, args []SV, rt types.Type) SV {
			c.abstract("sync.Map method without a precise model: all heaps havocked")
			ms := newModSet()
			ms.all = true
			c.havoc(st, c.curFrame, ms, "sync.Map method")
			return c.defaultResult(st, rt, "smap")
		}, mods: func(c *FnCtx, cc *ssa.CallCommon, ms *loopModSet) { ms.all = true }}
	}
	for _, o := range ops {
		o := o
		e.externs["(*sync.Map)."+o.name] = &externHandler{note: "sync.Map as an abstract linearizable map", fn: func(c *FnCtx, st *State, args []SV, rt types.Type) SV {
			c.trusted["sync.Map operations are linearizable single actions on an abstract key set (smap$dom/card)"] = true
			m, ok := args[0].(Sc)
			if !ok {
				c.abstract("sync.Map receiver")
				return c.defaultResult(st, rt, o.name)
			}
			fr := c.curFrame
			key := ""
			if fr != nil && c.curInstr != nil {
				key = c.opKeyOf(fr, c.curInstr)
			}
			if fr != nil {
				c.ogBefore(fr, st, key)
			}
			link(c, st, m.T, args)
			res := o.fn(c, st, m.T, args, rt)
			if fr != nil {
				results := map[string]SV{}
				if tu, ok := res.(Tu); ok && len(tu.Elems) == 2 {
					results["opLoaded"] = tu.Elems[1]
				}
				c.ogAfter(fr, st, key, results)
			}
			return res
		}, mods: func(c *FnCtx, cc *ssa.CallCommon, ms *loopModSet) {
			ms.heaps["smap$dom"] = domS
			ms.heaps["smap$card"] = SArr(SInt, SInt)
			ms.heaps["smap$val$tag"] = valS
			ms.heaps["smap$val$id"] = valS
		}}
	}
}

func init() {
	specBuiltins["closed"] = func(e *SpecEnv, n *ast.CallExpr) (SV, types.Type) {
		v, t := e.eval(n.Args[0])
		tm, _ := e.scalar(v, t)
		return Sc{e.c.chanField(e.st, "chan$closed", SBool, tm)}, tBool
	}
	specBuiltins["done"] = func(e *SpecEnv, n *ast.CallExpr) (SV, types.Type) {
		v, _ := e.eval(n.Args[0])
		iv, ok := v.(If)
		if !ok {
			e.fail("done() needs a context value")
		}
		ch := e.c.uf("ctxdone", SInt, iv.Tag, iv.ID)
		e.c.registerDoneChan(ch)
		return Sc{ch}, types.NewChan(types.RecvOnly, types.NewStruct(nil, nil))
	}
	specBuiltins["card"] = func(e *SpecEnv, n *ast.CallExpr) (SV, types.Type) {
		loc := e.evalLoc(n.Args[0])
		m := e.c.subRef(loc)
		h := e.c.heapGet(e.st, "smap$card", SArr(SInt, SInt))
		return Sc{Select(h, m, SInt)}, tMathInt
	}
	specBuiltins["tracked"] = func(e *SpecEnv, n *ast.CallExpr) (SV, types.Type) {
		loc := e.evalLoc(n.Args[0])
		m := e.c.subRef(loc)
		kv, kt := e.eval(n.Args[1])
		var key Term
		switch k := kv.(type) {
		case If:
			key = k.ID
		case Sc:
			key = e.c.box(k, kt)
		default:
			e.fail("tracked(m, key): unsupported key")
		}
		h := e.c.heapGet(e.st, "smap$dom", SArr(SInt, SArr(SInt, SBool)))
		has := Select(Select(h, m, SArr(SInt, SBool)), key, SBool)
		if e.c.vc.quant == 0 {
			ch := e.c.heapGet(e.st, "smap$card", SArr(SInt, SInt))
			e.c.vc.Assert(Implies(has, App(SBool, ">=", Select(ch, m, SInt), IntLit(1))))
		}
		return Sc{has}, tBool
	}
}

func (c *FnCtx) registerDoneChan(ch Term) {
	if c.vc.quant > 0 {
		return
	}
	for _, d := range c.doneChans {
		if d.S == ch.S {
			return
		}
	}
	c.doneChans = append(c.doneChans, ch)
	for _, p := range c.closedHavocs {
		c.vc.Assert(Implies(Select(p[0], ch, SBool), Select(p[1], ch, SBool)))
	}
}

// assertAll: `attr assert-all F`: every call of F in the function must carry at least one
// call-site assertion (a new, unconstrained call site is reported).
// hookedAll: `attr hooked NAME,...`: every operation of the function whose key names NAME - a
// send / receive (also as a select case) on channel NAME or a call of function NAME - must carry
// an `after` hook. Ghost counters then cannot be bypassed by an extra, unhooked operation.
func (c *FnCtx) hookedAll(fr *Frame) {
	ct := fr.contract
	if ct == nil || c.og == nil {
		return
	}
	spec, ok := ct.Attrs["hooked"]
	if !ok {
		return
	}
	seen := map[string]bool{}
	var names []string
	add := func(k string) {
		if k != "" && !seen[k] {
			seen[k] = true
			names = append(names, k)
		}
	}
	for _, k := range c.og.keys {
		add(k)
	}
	for _, ks := range c.og.caseKey {
		for _, k := range ks {
			add(k)
		}
	}
	sort.Strings(names)
	props := c.props
	lastWasTag := false
	for _, nm := range strings.Fields(strings.ReplaceAll(spec, ",", " ")) {
		if strings.HasPrefix(nm, "@") {
			// `attr hooked @C01 a,b`: the obligations count for that property (`@C01 @C04 a`: both)
			if !lastWasTag {
				props = nil
			}
			props = append(props, strings.TrimPrefix(nm, "@"))
			lastWasTag = true
			continue
		}
		lastWasTag = false
		r := &OblResult{Name: c.eng.shortFuncName(fr.fn) + "/hooked:" + nm, Class: "hooked", Func: c.eng.funcKey(fr.fn), Kind: "prove",
			Clause: "every operation on " + nm + " carries an after-hook", Status: "discharged", Solve: SolveResult{Status: "unsat", Winner: "opkey-scan"}}
		for _, k := range names {
			if (strings.Contains(k, "("+nm+")") || strings.HasPrefix(k, nm+"(") || strings.Contains(k, "."+nm+"(")) && len(c.og.afters[k]) == 0 && len(c.og.afters[k[:strings.Index(k, "(")]+"(*)"]) == 0 {
				r.Status = "refuted"
				r.Solve = SolveResult{Status: "sat", Winner: "opkey-scan", Model: []string{"operation without after-hook: " + k}}
			}
		}
		r.obl = &Obligation{Name: r.Name, Props: props, Kind: "prove", vc: c.vc}
		c.decided = append(c.decided, r)
	}
}

// ownVars: `attr own-var [@PROP] NAME,...`: NAME is a variable declared by the function itself
// (a parameter or local), not one captured from the enclosing function. For the body of a `go`
// statement this is the ownership condition "every goroutine has its own NAME": a captured
// variable would be shared by all the goroutines started from the same enclosing call, and the
// sequential contracts of the body would say nothing about what the others do to it.
func (c *FnCtx) ownVars(fr *Frame) {
	ct := fr.contract
	if ct == nil {
		return
	}
	spec, ok := ct.Attrs["own-var"]
	if !ok {
		return
	}
	props := c.props
	lastWasTag := false
	for _, nm := range strings.Fields(strings.ReplaceAll(spec, ",", " ")) {
		if strings.HasPrefix(nm, "@") {
			// `@C02 @C04 name`: consecutive tags accumulate
			if !lastWasTag {
				props = nil
			}
			props = append(props, strings.TrimPrefix(nm, "@"))
			lastWasTag = true
			continue
		}
		lastWasTag = false
		r := &OblResult{Name: c.eng.shortFuncName(fr.fn) + "/own-var:" + nm, Class: "own-var", Func: c.eng.funcKey(fr.fn), Kind: "prove",
			Clause: nm + " is declared by the function itself, not captured from the enclosing one", Status: "discharged", Solve: SolveResult{Status: "unsat", Winner: "ssa-scan"}}
		declared := false
		for _, p := range fr.fn.Params {
			if p.Name() == nm {
				declared = true
			}
		}
		for _, l := range fr.fn.Locals {
			if l.Comment == nm {
				declared = true
			}
		}
		for _, b := range fr.fn.Blocks {
			for _, in := range b.Instrs {
				if a, ok := in.(*ssa.Alloc); ok && a.Comment == nm {
					declared = true
				}
			}
		}
		captured := false
		for _, fv := range fr.fn.FreeVars {
			if fv.Name() == nm {
				captured = true
			}
		}
		if captured || !declared {
			r.Status = "refuted"
			why := "no variable of that name is declared in the function"
			if captured {
				why = "the variable is captured from the enclosing function (shared by every goroutine started there)"
			}
			r.Solve = SolveResult{Status: "sat", Winner: "ssa-scan", Model: []string{nm + ": " + why}}
		}
		r.obl = &Obligation{Name: r.Name, Props: props, Kind: "prove", vc: c.vc}
		c.decided = append(c.decided, r)
	}
}

// cancellable: `attr cancellable [@PROP] ch,...`: every send to / receive from channel ch in the
// function is a case of a select statement that also has a receive case on a context's Done
// channel (`<-ctx.Done()`): the operation cannot keep the goroutine blocked once its context is
// cancelled. Structural (scan of the SSA), like `hooked`.
func (c *FnCtx) cancellable(fr *Frame) {
	ct := fr.contract
	if ct == nil {
		return
	}
	spec, ok := ct.Attrs["cancellable"]
	if !ok {
		return
	}
	props := c.props
	lastWasTag := false
	for _, nm := range strings.Fields(strings.ReplaceAll(spec, ",", " ")) {
		if strings.HasPrefix(nm, "@") {
			if !lastWasTag {
				props = nil
			}
			props = append(props, strings.TrimPrefix(nm, "@"))
			lastWasTag = true
			continue
		}
		lastWasTag = false
		alsoCh := ""
		if i := strings.Index(nm, "+"); i > 0 {
			// `ch+other`: the select that operates on ch also has a receive case on `other`
			alsoCh = nm[i+1:]
			nm = nm[:i]
		}
		wantCtx := ""
		if i := strings.Index(nm, ":"); i > 0 {
			// `ch:ctxname`: the Done case must be on that context
			wantCtx = nm[i+1:]
			nm = nm[:i]
		}
		oblName := nm
		if alsoCh != "" {
			oblName = nm + "+" + alsoCh
		}
		r := &OblResult{Name: c.eng.shortFuncName(fr.fn) + "/cancellable:" + oblName, Class: "cancellable", Func: c.eng.funcKey(fr.fn), Kind: "prove",
			Clause: "every send / receive on " + nm + " is a select case next to a <-ctx.Done() case", Status: "discharged", Solve: SolveResult{Status: "unsat", Winner: "ssa-scan"}}
		var bad []string
		seen := 0
		where := func(in ssa.Instruction) string {
			if p := in.Pos(); p.IsValid() {
				pp := c.eng.prog.Fset.Position(p)
				return fmt.Sprintf("%s:%d", strings.TrimPrefix(pp.Filename, repoDir()+"/"), pp.Line)
			}
			return "?"
		}
		for _, b := range fr.fn.Blocks {
			for _, in := range b.Instrs {
				switch x := in.(type) {
				case *ssa.Send:
					if valueName(x.Chan) == nm {
						seen++
						bad = append(bad, "plain send at "+where(in))
					}
				case *ssa.UnOp:
					if x.Op == token.ARROW && valueName(x.X) == nm {
						seen++
						bad = append(bad, "plain receive at "+where(in))
					}
				case *ssa.Select:
					has, done, also := false, false, alsoCh == ""
					for _, s := range x.States {
						if valueName(s.Chan) == nm {
							has = true
						}
						if alsoCh != "" && s.Dir == types.RecvOnly && valueName(s.Chan) == alsoCh {
							also = true
						}
						if s.Dir == types.RecvOnly && strings.HasPrefix(valueName(s.Chan), "done(") && (wantCtx == "" || valueName(s.Chan) == "done("+wantCtx+")") {
							done = true
						}
					}
					if wantCtx == "default" && !x.Blocking {
						// `ch:default`: the select has a default case, the operation never blocks
						done = true
					}
					if has && !also {
						bad = append(bad, "select without a receive case on "+alsoCh+" at "+where(in))
					}
					if has {
						seen++
						if !done {
							bad = append(bad, "select without a <-"+map[bool]string{true: "ctx", false: wantCtx}[wantCtx == ""]+".Done() case at "+where(in))
						} else if !x.Blocking {
							// a default case never blocks either: fine
						}
					}
				}
			}
		}
		if seen == 0 {
			bad = append(bad, "no operation on a channel of that name in the function")
		}
		if len(bad) > 0 {
			r.Status = "refuted"
			r.Solve = SolveResult{Status: "sat", Winner: "ssa-scan", Model: bad}
		}
		r.obl = &Obligation{Name: r.Name, Props: props, Kind: "prove", vc: c.vc}
		c.decided = append(c.decided, r)
	}
}

func (c *FnCtx) assertAll(fr *Frame) {
	ct := fr.contract
	if ct == nil {
		return
	}
	spec, ok := ct.Attrs["assert-all"]
	if !ok {
		return
	}
	keys, _ := c.buildOpKeys(fr.fn)
	var names []string
	for _, k := range keys {
		names = append(names, k)
	}
	sort.Strings(names)
	for _, callee := range strings.Fields(strings.ReplaceAll(spec, ",", " ")) {
		r := &OblResult{Name: c.eng.shortFuncName(fr.fn) + "/assert-all:" + callee, Class: "assert-all", Func: c.eng.funcKey(fr.fn), Kind: "prove",
			Clause: "every call of " + callee + " carries a call-site assertion", Status: "discharged", Solve: SolveResult{Status: "unsat", Winner: "opkey-scan"}}
		for _, k := range names {
			if strings.HasPrefix(k, callee+"(") && len(ct.Asserts[k]) == 0 && len(ct.Asserts[callee+"(*)"]) == 0 {
				r.Status = "refuted"
				r.Solve = SolveResult{Status: "sat", Winner: "opkey-scan", Model: []string{"call site without assertion: " + k}}
			}
		}
		r.obl = &Obligation{Name: r.Name, Props: c.props, Kind: "prove", vc: c.vc}
		c.decided = append(c.decided, r)
	}
}
