package main

import (
	"fmt"
	"go/token"
	"go/types"
	"math/big"

	"golang.org/x/tools/go/ssa"
)

func basicOf(t types.Type) *types.Basic {
	if isTimeTime(t) {
		return nil
	}
	b, _ := t.Underlying().(*types.Basic)
	return b
}

func (c *FnCtx) unop(fr *Frame, st *State, x *ssa.UnOp) SV {
	switch x.Op {
	case token.MUL:
		return c.loadPtr(fr, st, x.X)
	case token.NOT:
		return Sc{Not(c.term(fr, st, x.X))}
	case token.SUB:
		t := c.term(fr, st, x.X)
		switch {
		case t.Sort == SInt:
			r := App(SInt, "-", t)
			if b := basicOf(x.Type()); b != nil && isUnsigned(b) {
				r = c.wrapUnsigned(r, intWidth(b))
			}
			return Sc{r}
		case t.Sort == SReal:
			return Sc{App(SReal, "-", t)}
		case t.Sort.IsBV():
			return Sc{App(t.Sort, "bvneg", t)}
		case t.Sort.IsFP():
			return Sc{App(t.Sort, "fp.neg", t)}
		}
	case token.XOR:
		t := c.term(fr, st, x.X)
		if t.Sort.IsBV() {
			return Sc{App(t.Sort, "bvnot", t)}
		}
		if t.Sort == SInt {
			if b := basicOf(x.Type()); b != nil {
				if isUnsigned(b) {
					// ^x = 2^w - 1 - x
					hi := new(big.Int).Sub(pow2(intWidth(b)), big.NewInt(1))
					return Sc{App(SInt, "-", BigIntLit(hi), t)}
				}
				return Sc{App(SInt, "-", App(SInt, "-", t), IntLit(1))}
			}
		}
	case token.ARROW:
		return c.chanRecv(fr, st, x)
	}
	c.abstract("unsupported unary op " + x.Op.String())
	return c.freshValue(x.Type(), "unop")
}

func (c *FnCtx) wrapUnsigned(t Term, w int) Term {
	return App(SInt, "mod", t, BigIntLit(pow2(w)))
}

func (c *FnCtx) wrapSigned(t Term, w int) Term {
	half := BigIntLit(pow2(w - 1))
	return App(SInt, "-", App(SInt, "mod", App(SInt, "+", t, half), BigIntLit(pow2(w))), half)
}

func truncDiv(a, b Term) Term {
	// Go's truncated division over mathematical integers
	q := App(SInt, "div", App(SInt, "abs", a), App(SInt, "abs", b))
	neg := App(SBool, "xor", App(SBool, "<", a, IntLit(0)), App(SBool, "<", b, IntLit(0)))
	return Ite(neg, App(SInt, "-", q), q)
}

func (c *FnCtx) ovfCheck(st *State, r Term, t types.Type) {
	if !(c.checks["ovf"] || c.checks["all"]) {
		return
	}
	if b := basicOf(t); b != nil && b.Info()&types.IsInteger != 0 && !isUnsigned(b) {
		c.addObl("safe:ovf", "", nil, st, c.typeRange(r, t), nil)
	}
}

func (c *FnCtx) binop(st *State, op token.Token, a, b SV, opndT, resT types.Type) SV {
	// comparisons of compound values
	switch op {
	case token.EQL, token.NEQ:
		eq, ok := c.equalSV(a, b, opndT)
		if !ok {
			c.abstract("unsupported equality on " + opndT.String())
			eq = c.vc.Fresh("eq", SBool)
		}
		if op == token.NEQ {
			return Sc{Not(eq)}
		}
		return Sc{eq}
	}
	x, okx := a.(Sc)
	y, oky := b.(Sc)
	if !okx || !oky {
		c.abstract("binary op on non-scalar")
		return c.freshValue(resT, "binop")
	}
	s := x.T.Sort
	bt := basicOf(opndT)
	switch {
	case s == SInt:
		uns := bt != nil && isUnsigned(bt)
		w := 64
		if bt != nil {
			w = intWidth(bt)
		}
		arith := func(r Term) SV {
			if uns {
				r = c.wrapUnsigned(r, w)
			} else {
				c.ovfCheck(st, r, resT)
				if c.modeWrap {
					r = c.wrapSigned(r, w)
				}
			}
			return Sc{c.vc.Name("a", r)}
		}
		switch op {
		case token.ADD:
			return arith(App(SInt, "+", x.T, y.T))
		case token.SUB:
			return arith(App(SInt, "-", x.T, y.T))
		case token.MUL:
			return arith(App(SInt, "*", x.T, y.T))
		case token.QUO:
			c.safety("div", st, Not(Eq(y.T, IntLit(0))))
			return Sc{c.vc.Name("a", truncDiv(x.T, y.T))}
		case token.REM:
			c.safety("div", st, Not(Eq(y.T, IntLit(0))))
			q := truncDiv(x.T, y.T)
			return Sc{c.vc.Name("a", App(SInt, "-", x.T, App(SInt, "*", y.T, q)))}
		case token.LSS:
			return Sc{App(SBool, "<", x.T, y.T)}
		case token.LEQ:
			return Sc{App(SBool, "<=", x.T, y.T)}
		case token.GTR:
			return Sc{App(SBool, ">", x.T, y.T)}
		case token.GEQ:
			return Sc{App(SBool, ">=", x.T, y.T)}
		case token.SHL, token.SHR, token.AND, token.OR, token.XOR, token.AND_NOT:
			c.abstract("bit operation " + op.String() + " on mathematical integers (uninterpreted)")
			return Sc{c.uf("bitop$"+op.String(), SInt, x.T, y.T)}
		}
	case s.IsBV():
		uns := bt != nil && isUnsigned(bt)
		y2 := y.T
		if y2.Sort != s && y2.Sort.IsBV() {
			// shift counts may have a different width
			yw, xw := y2.Sort.BVWidth(), s.BVWidth()
			if yw < xw {
				y2 = Term{fmt.Sprintf("((_ zero_extend %d) %s)", xw-yw, y2.S), s}
			} else {
				y2 = Term{fmt.Sprintf("((_ extract %d 0) %s)", xw-1, y2.S), s}
			}
		}
		bin := func(o string) SV { return Sc{c.vc.Name("a", App(s, o, x.T, y2))} }
		cmp := func(o string) SV { return Sc{App(SBool, o, x.T, y2)} }
		switch op {
		case token.ADD:
			return bin("bvadd")
		case token.SUB:
			return bin("bvsub")
		case token.MUL:
			return bin("bvmul")
		case token.QUO:
			c.safety("div", st, Not(Eq(y2, BVLit(big.NewInt(0), s.BVWidth()))))
			if uns {
				return bin("bvudiv")
			}
			return bin("bvsdiv")
		case token.REM:
			c.safety("div", st, Not(Eq(y2, BVLit(big.NewInt(0), s.BVWidth()))))
			if uns {
				return bin("bvurem")
			}
			return bin("bvsrem")
		case token.AND:
			return bin("bvand")
		case token.OR:
			return bin("bvor")
		case token.XOR:
			return bin("bvxor")
		case token.AND_NOT:
			return Sc{App(s, "bvand", x.T, App(s, "bvnot", y2))}
		case token.SHL:
			return bin("bvshl")
		case token.SHR:
			if uns {
				return bin("bvlshr")
			}
			return bin("bvashr")
		case token.LSS:
			if uns {
				return cmp("bvult")
			}
			return cmp("bvslt")
		case token.LEQ:
			if uns {
				return cmp("bvule")
			}
			return cmp("bvsle")
		case token.GTR:
			if uns {
				return cmp("bvugt")
			}
			return cmp("bvsgt")
		case token.GEQ:
			if uns {
				return cmp("bvuge")
			}
			return cmp("bvsge")
		}
	case s == SReal:
		switch op {
		case token.ADD:
			return Sc{c.vc.Name("r", App(SReal, "+", x.T, y.T))}
		case token.SUB:
			return Sc{c.vc.Name("r", App(SReal, "-", x.T, y.T))}
		case token.MUL:
			return Sc{c.vc.Name("r", App(SReal, "*", x.T, y.T))}
		case token.QUO:
			// float division by zero does not panic; result ±Inf/NaN is outside the real model
			c.assume("A-real: float64 arithmetic idealised as real arithmetic; division by zero yields an unspecified value")
			return Sc{c.vc.Name("r", App(SReal, "/", x.T, y.T))}
		case token.LSS:
			return Sc{App(SBool, "<", x.T, y.T)}
		case token.LEQ:
			return Sc{App(SBool, "<=", x.T, y.T)}
		case token.GTR:
			return Sc{App(SBool, ">", x.T, y.T)}
		case token.GEQ:
			return Sc{App(SBool, ">=", x.T, y.T)}
		}
	case s.IsFP():
		rm := Term{"RNE", "RoundingMode"}
		switch op {
		case token.ADD:
			return Sc{c.vc.Name("f", App(s, "fp.add", rm, x.T, y.T))}
		case token.SUB:
			return Sc{c.vc.Name("f", App(s, "fp.sub", rm, x.T, y.T))}
		case token.MUL:
			return Sc{c.vc.Name("f", App(s, "fp.mul", rm, x.T, y.T))}
		case token.QUO:
			return Sc{c.vc.Name("f", App(s, "fp.div", rm, x.T, y.T))}
		case token.LSS:
			return Sc{App(SBool, "fp.lt", x.T, y.T)}
		case token.LEQ:
			return Sc{App(SBool, "fp.leq", x.T, y.T)}
		case token.GTR:
			return Sc{App(SBool, "fp.gt", x.T, y.T)}
		case token.GEQ:
			return Sc{App(SBool, "fp.geq", x.T, y.T)}
		}
	case s == SStr:
		switch op {
		case token.ADD:
			r := c.uf("strcat", SStr, x.T, y.T)
			c.vc.Assert(Eq(c.strLen(r), App(SInt, "+", c.strLen(x.T), c.strLen(y.T))))
			return Sc{r}
		case token.LSS, token.LEQ, token.GTR, token.GEQ:
			return Sc{c.uf("strcmp$"+op.String(), SBool, x.T, y.T)}
		}
	case s == SBool:
		switch op {
		case token.AND, token.LAND:
			return Sc{And(x.T, y.T)}
		case token.OR, token.LOR:
			return Sc{Or(x.T, y.T)}
		}
	}
	c.abstract(fmt.Sprintf("unsupported binary op %s on %s", op, s))
	return c.freshValue(resT, "binop")
}

func (c *FnCtx) equalSV(a, b SV, t types.Type) (Term, bool) {
	switch x := a.(type) {
	case Sc:
		switch y := b.(type) {
		case Sc:
			if x.T.Sort != y.T.Sort {
				return TFalse, false
			}
			return Eq(x.T, y.T), true
		case If:
			// interface compared with nil constant
			return Eq(y.Tag, IntLit(0)), true
		case Sl:
			return Eq(y.Arr, IntLit(0)), true
		case Ad:
			if y.Loc != nil && y.Loc.Idx2 == nil {
				return Eq(x.T, y.Loc.Idx), true
			}
		case Fn:
			if y.Opaque.Valid() {
				return Eq(x.T, y.Opaque), true
			}
			if y.F != nil {
				return Eq(x.T, c.funcRef(y.F)), true
			}
		}
	case If:
		switch y := b.(type) {
		case If:
			// comparison with the nil interface: the type tag decides (tag 0 <=> nil)
			if y.Tag.S == "0" && y.ID.S == "0" {
				return Eq(x.Tag, IntLit(0)), true
			}
			if x.Tag.S == "0" && x.ID.S == "0" {
				return Eq(y.Tag, IntLit(0)), true
			}
			return And(Eq(x.Tag, y.Tag), Eq(x.ID, y.ID)), true
		case Sc:
			return Eq(x.Tag, IntLit(0)), true
		}
	case Sl:
		if _, ok := b.(Sc); ok {
			return Eq(x.Arr, IntLit(0)), true
		}
		if y, ok := b.(Sl); ok {
			// only nil comparison is legal in Go
			_ = y
			return Eq(x.Arr, IntLit(0)), true
		}
	case Ad:
		switch y := b.(type) {
		case Ad:
			if x.Cell != nil && y.Cell != nil {
				return BoolLit(*x.Cell == *y.Cell), true
			}
			if x.Loc != nil && y.Loc != nil && x.Loc.Prefix == y.Loc.Prefix && x.Loc.Idx2 == nil && y.Loc.Idx2 == nil {
				return Eq(x.Loc.Idx, y.Loc.Idx), true
			}
		case Sc:
			if x.Loc != nil && x.Loc.Idx2 == nil {
				return Eq(x.Loc.Idx, y.T), true
			}
			if x.Cell != nil {
				return TFalse, true // address of a local is never nil
			}
		}
	case Fn:
		if y, ok := b.(Sc); ok {
			if x.Opaque.Valid() {
				return Eq(x.Opaque, y.T), true
			}
			return TFalse, true
		}
		if y, ok := b.(Fn); ok {
			if x.Opaque.Valid() && y.Opaque.Valid() {
				return Eq(x.Opaque, y.Opaque), true
			}
		}
	case St:
		if y, ok := b.(St); ok && len(x.Fields) == len(y.Fields) {
			var cs []Term
			s := t.Underlying().(*types.Struct)
			for i := range x.Fields {
				e, ok := c.equalSV(x.Fields[i], y.Fields[i], s.Field(i).Type())
				if !ok {
					return TFalse, false
				}
				cs = append(cs, e)
			}
			return And(cs...), true
		}
	}
	return TFalse, false
}

func (c *FnCtx) convert(st *State, v SV, from, to types.Type) SV {
	fb, tb := basicOf(from), basicOf(to)
	x, ok := v.(Sc)
	if !ok || fb == nil || tb == nil {
		// string <-> []byte etc.
		if isTimeTime(from) || isTimeTime(to) {
			return v
		}
		if fb != nil && fb.Info()&types.IsString != 0 {
			// string -> []byte / []rune
			if sl, ok := to.Underlying().(*types.Slice); ok {
				arr := c.allocRef(st, "bytes")
				n := c.strLen(x.T)
				if eb := basicOf(sl.Elem()); eb != nil && eb.Kind() == types.Uint8 && !c.modeBV {
					// bytes of the new array are the bytes of the string
					name := "elem$" + typeKey(sl.Elem())
					h := c.heapGet(st, name, c.heapSort(SInt, true))
					fa := c.vc.Fresh("bytesof", SArr(SInt, SInt))
					sa := c.vc.Declare("strat", []Sort{SStr, SInt}, SInt)
					c.vc.Assert(Term{fmt.Sprintf("(forall ((i Int)) (! (= (select %s i) (%s %s i)) :pattern ((select %s i))))", fa.S, sa, x.T.S, fa.S), SBool})
					c.heapSet(st, name, c.vc.Name("h", Store(h, arr, fa)))
					// the text held by that byte range is the string (read back by io.Writer models)
					c.vc.Assert(Eq(c.uf("slicetext", SStr, fa, IntLit(0), n), x.T))
					return Sl{arr, IntLit(0), n, n}
				}
				ln := c.vc.Fresh("cvlen", SInt)
				c.vc.Assert(And(App(SBool, "<=", IntLit(0), ln), App(SBool, "<=", ln, n)))
				return Sl{arr, IntLit(0), ln, ln}
			}
		}
		if tb != nil && tb.Info()&types.IsString != 0 {
			if sl, ok := v.(Sl); ok {
				if eb := basicOf(from.Underlying().(*types.Slice).Elem()); eb != nil && eb.Kind() == types.Uint8 && !c.modeBV {
					// string(b) is a function of the bytes b holds now (same function the
					// specification builtin bytestext and the io.Writer models use)
					r := c.vc.Name("b2s", c.sliceText(st, v))
					c.vc.Assert(Eq(c.strLen(r), sl.Len))
					return Sc{r}
				}
				r := c.vc.Fresh("str", SStr)
				c.vc.Assert(Eq(c.strLen(r), sl.Len))
				return Sc{r}
			}
		}
		if ok && (fb == nil || tb == nil) {
			return v
		}
		c.abstract(fmt.Sprintf("unsupported conversion %s -> %s", from, to))
		return c.freshValue(to, "conv")
	}
	fi, ti := fb.Info(), tb.Info()
	switch {
	case fi&types.IsInteger != 0 && ti&types.IsInteger != 0:
		if x.T.Sort == SInt {
			fw, tw := intWidth(fb), intWidth(tb)
			fu, tu := isUnsigned(fb), isUnsigned(tb)
			fits := (fu == tu && tw >= fw) || (fu && !tu && tw > fw)
			if fits {
				return x
			}
			if tu {
				return Sc{c.vc.Name("cv", c.wrapUnsigned(x.T, tw))}
			}
			return Sc{c.vc.Name("cv", c.wrapSigned(x.T, tw))}
		}
		if x.T.Sort.IsBV() {
			fw, tw := intWidth(fb), intWidth(tb)
			switch {
			case tw == fw:
				return x
			case tw < fw:
				return Sc{Term{fmt.Sprintf("((_ extract %d 0) %s)", tw-1, x.T.S), SBV(tw)}}
			case isUnsigned(fb):
				return Sc{Term{fmt.Sprintf("((_ zero_extend %d) %s)", tw-fw, x.T.S), SBV(tw)}}
			default:
				return Sc{Term{fmt.Sprintf("((_ sign_extend %d) %s)", tw-fw, x.T.S), SBV(tw)}}
			}
		}
	case fi&types.IsInteger != 0 && ti&types.IsFloat != 0:
		switch {
		case x.T.Sort == SInt:
			if c.modeFP {
				c.abstract("int->float with Int sort in fp mode")
				return c.freshValue(to, "conv")
			}
			return Sc{App(SReal, "to_real", x.T)}
		case x.T.Sort.IsBV():
			ts := c.floatSort(tb)
			if ts == SReal {
				c.abstract("bv->real conversion")
				return c.freshValue(to, "conv")
			}
			if isUnsigned(fb) {
				return Sc{c.vc.Name("f", Term{fmt.Sprintf("((_ to_fp_unsigned 11 53) RNE %s)", x.T.S), SFP})}
			}
			return Sc{c.vc.Name("f", Term{fmt.Sprintf("((_ to_fp 11 53) RNE %s)", x.T.S), SFP})}
		}
	case fi&types.IsFloat != 0 && ti&types.IsInteger != 0:
		switch {
		case x.T.Sort == SReal:
			tr := Ite(App(SBool, ">=", x.T, Term{"0.0", SReal}), App(SInt, "to_int", x.T), App(SInt, "-", App(SInt, "to_int", App(SReal, "-", x.T))))
			r := c.vc.Name("cv", tr)
			inRange := c.typeRange(r, to)
			if c.checks["conv"] || c.checks["all"] {
				c.addObl("safe:conv", "", nil, st, inRange, nil)
				st.pc = c.vc.Name("pc", And(st.pc, inRange))
				return Sc{r}
			}
			// out-of-range float->int conversion is implementation-defined in Go: the result is
			// some value of the target type
			res := c.vc.Fresh("cvr", SInt)
			c.vc.Assert(c.typeRange(res, to))
			c.vc.Assert(Implies(inRange, Eq(res, r)))
			return Sc{res}
		case x.T.Sort.IsFP():
			w := intWidth(tb)
			op := "fp.to_sbv"
			if isUnsigned(tb) {
				op = "fp.to_ubv"
			}
			r := c.vc.Name("cv", Term{fmt.Sprintf("((_ %s %d) RTZ %s)", op, w, x.T.S), SBV(w)})
			// in-range obligation: Go leaves out-of-range conversions implementation-defined
			var lo, hi float64
			if isUnsigned(tb) {
				lo, hi = -1, float64(uint64(1)<<63)*2
			} else {
				lo, hi = -float64(uint64(1)<<63)-1025, float64(uint64(1)<<63)
			}
			if w == 64 {
				inRange := And(Not(App(SBool, "fp.isNaN", x.T)), App(SBool, "fp.gt", x.T, FPLit(lo)), App(SBool, "fp.lt", x.T, FPLit(hi)))
				if c.checks["conv"] || c.checks["all"] {
					c.addObl("safe:conv", "", nil, st, inRange, nil)
				}
			}
			return Sc{r}
		}
	case fi&types.IsFloat != 0 && ti&types.IsFloat != 0:
		if x.T.Sort == c.floatSort(tb) {
			return x
		}
		if x.T.Sort.IsFP() {
			if tb.Kind() == types.Float32 {
				return Sc{Term{fmt.Sprintf("((_ to_fp 8 24) RNE %s)", x.T.S), SFP32}}
			}
			return Sc{Term{fmt.Sprintf("((_ to_fp 11 53) RNE %s)", x.T.S), SFP}}
		}
	case fi&types.IsString != 0 && ti&types.IsString != 0:
		return x
	case fi&types.IsInteger != 0 && ti&types.IsString != 0:
		return Sc{c.uf("runeToString", SStr, x.T)}
	case fb.Kind() == types.UnsafePointer || tb.Kind() == types.UnsafePointer:
		return x
	}
	c.abstract(fmt.Sprintf("unsupported conversion %s -> %s", from, to))
	return c.freshValue(to, "conv")
}

func (c *FnCtx) typeAssert(fr *Frame, st *State, x *ssa.TypeAssert) SV {
	v := c.val(fr, st, x.X)
	iv, ok := v.(If)
	if !ok {
		c.abstract("type assertion on non-interface value")
		return c.freshValue(x.Type(), "ta")
	}
	if _, toIface := x.AssertedType.Underlying().(*types.Interface); toIface {
		// interface-to-interface: succeeds iff non-nil and implements (unknown): fresh ok
		okT := c.vc.Fresh("taok", SBool)
		c.vc.Assert(Implies(okT, Not(Eq(iv.Tag, IntLit(0)))))
		if x.CommaOk {
			res := If{Tag: Ite(okT, iv.Tag, IntLit(0)), ID: Ite(okT, iv.ID, IntLit(0))}
			return Tu{Elems: []SV{res, Sc{okT}}}
		}
		c.safety("assert", st, okT)
		return iv
	}
	tag := c.typeTag(x.AssertedType)
	okT := Eq(iv.Tag, tag)
	var payload SV
	if iv.Static != nil && iv.StaticT != nil && types.Identical(iv.StaticT, x.AssertedType) {
		payload = iv.Static
	} else {
		payload = c.unbox(iv.ID, x.AssertedType)
	}
	if x.CommaOk {
		// on failure the zero value is returned
		z := c.zeroValue(x.AssertedType)
		return Tu{Elems: []SV{c.mergeSV(okT, payload, z), Sc{okT}}}
	}
	c.safety("assert", st, okT)
	return payload
}

// ---------------------------------------------------------------------------------------
// slices, arrays, strings

func (c *FnCtx) elemLoc(et types.Type, arr, idx Term) *Loc {
	i := idx
	return &Loc{Prefix: "elem$" + typeKey(et), Idx: arr, Idx2: &i, T: et}
}

func (c *FnCtx) intTerm(t Term) Term {
	// index terms are always mathematical integers
	if t.Sort.IsBV() {
		var n int64
		var w int
		if k, _ := fmt.Sscanf(t.S, "(_ bv%d %d)", &n, &w); k == 2 {
			return IntLit(n)
		}
		return Term{fmt.Sprintf("(bv2nat %s)", t.S), SInt}
	}
	return t
}

func (c *FnCtx) indexAddr(fr *Frame, st *State, x *ssa.IndexAddr) SV {
	idx := c.intTerm(c.term(fr, st, x.Index))
	base := c.val(fr, st, x.X)
	switch u := x.X.Type().Underlying().(type) {
	case *types.Slice:
		sl, ok := base.(Sl)
		if !ok {
			break
		}
		c.safety("idx", st, And(App(SBool, "<=", IntLit(0), idx), App(SBool, "<", idx, sl.Len)))
		loc := c.elemLoc(u.Elem(), sl.Arr, c.ix(sl.Off, idx))
		if structOf(u.Elem()) != nil {
			return Sc{c.subRef(loc)}
		}
		return Ad{Loc: loc}
	case *types.Pointer:
		arr := u.Elem().Underlying().(*types.Array)
		ref, ok := base.(Sc)
		if !ok {
			break
		}
		c.safety("idx", st, And(App(SBool, "<=", IntLit(0), idx), App(SBool, "<", idx, IntLit(arr.Len()))))
		loc := c.elemLoc(arr.Elem(), ref.T, idx)
		if structOf(arr.Elem()) != nil {
			return Sc{c.subRef(loc)}
		}
		return Ad{Loc: loc}
	}
	c.abstract("unsupported IndexAddr")
	return c.freshValue(x.Type(), "ia")
}

func (c *FnCtx) index(fr *Frame, st *State, x *ssa.Index) SV {
	idx := c.intTerm(c.term(fr, st, x.Index))
	if b := basicOf(x.X.Type()); b != nil && b.Info()&types.IsString != 0 {
		s := c.term(fr, st, x.X)
		c.safety("idx", st, And(App(SBool, "<=", IntLit(0), idx), App(SBool, "<", idx, c.strLen(s))))
		at := c.strAt(s, idx)
		c.vc.Assert(And(App(SBool, "<=", IntLit(0), at), App(SBool, "<=", at, IntLit(255))))
		if c.modeBV {
			c.abstract("string index in bv mode")
			return c.freshValue(x.Type(), "ix")
		}
		return Sc{at}
	}
	if arr, ok := x.X.Type().Underlying().(*types.Array); ok {
		ref := c.term(fr, st, x.X)
		c.safety("idx", st, And(App(SBool, "<=", IntLit(0), idx), App(SBool, "<", idx, IntLit(arr.Len()))))
		return c.loadLoc(st, c.elemLoc(arr.Elem(), ref, idx))
	}
	c.abstract("unsupported Index")
	return c.freshValue(x.Type(), "ix")
}

func (c *FnCtx) sliceOp(fr *Frame, st *State, x *ssa.Slice) SV {
	base := c.val(fr, st, x.X)
	opt := func(v ssa.Value, def Term) Term {
		if v == nil {
			return def
		}
		return c.intTerm(c.term(fr, st, v))
	}
	switch u := x.X.Type().Underlying().(type) {
	case *types.Slice:
		sl, ok := base.(Sl)
		if !ok {
			break
		}
		lo := opt(x.Low, IntLit(0))
		hi := opt(x.High, sl.Len)
		mx := opt(x.Max, sl.Cap)
		c.safety("slice", st, And(App(SBool, "<=", IntLit(0), lo), App(SBool, "<=", lo, hi), App(SBool, "<=", hi, mx), App(SBool, "<=", mx, sl.Cap)))
		return Sl{sl.Arr, c.vc.Name("so", App(SInt, "+", sl.Off, lo)), c.vc.Name("sn", App(SInt, "-", hi, lo)), c.vc.Name("sc", App(SInt, "-", mx, lo))}
	case *types.Basic: // string
		s := base.(Sc).T
		n := c.strLen(s)
		lo := opt(x.Low, IntLit(0))
		hi := opt(x.High, n)
		c.safety("slice", st, And(App(SBool, "<=", IntLit(0), lo), App(SBool, "<=", lo, hi), App(SBool, "<=", hi, n)))
		return Sc{c.substr(s, lo, hi)}
	case *types.Pointer:
		arr, ok := u.Elem().Underlying().(*types.Array)
		if !ok {
			break
		}
		ref := base.(Sc).T
		n := IntLit(arr.Len())
		lo := opt(x.Low, IntLit(0))
		hi := opt(x.High, n)
		mx := opt(x.Max, n)
		c.safety("slice", st, And(App(SBool, "<=", IntLit(0), lo), App(SBool, "<=", lo, hi), App(SBool, "<=", hi, mx), App(SBool, "<=", mx, n)))
		return Sl{ref, lo, c.vc.Name("sn", App(SInt, "-", hi, lo)), c.vc.Name("sc", App(SInt, "-", mx, lo))}
	}
	c.abstract("unsupported Slice")
	return c.freshValue(x.Type(), "sl")
}

// substr(s, lo, hi) with length and byte-view axioms.
func (c *FnCtx) substr(s, lo, hi Term) Term {
	if lo.S == "0" && hi.S == c.strLen(s).S {
		return s
	}
	r := c.uf("substr", SStr, s, lo, hi)
	c.vc.Assert(Implies(And(App(SBool, "<=", IntLit(0), lo), App(SBool, "<=", lo, hi), App(SBool, "<=", hi, c.strLen(s))), Eq(c.strLen(r), App(SInt, "-", hi, lo))))
	if !c.substrAxiom {
		c.substrAxiom = true
		sa := c.vc.Declare("strat", []Sort{SStr, SInt}, SInt)
		ss := c.vc.Declare("substr", []Sort{SStr, SInt, SInt}, SStr)
		c.vc.Assert(Term{fmt.Sprintf("(forall ((s Str) (a Int) (b Int) (i Int)) (! (=> (and (<= 0 i) (< i (- b a))) (= (%s (%s s a b) i) (%s s (+ a i)))) :pattern ((%s (%s s a b) i))))", sa, ss, sa, sa, ss), SBool})
	}
	return r
}

// ---------------------------------------------------------------------------------------
// maps

func (c *FnCtx) mapHeapNames(m *types.Map) map[string]Sort {
	out := map[string]Sort{}
	ks := c.scalarSort(m.Key())
	if ks == "" {
		ks = SInt
	}
	mk := typeKey(m)
	out["mapdom$"+mk] = SArr(SInt, SArr(ks, SBool))
	for _, lf := range c.leaves(m.Elem()) {
		out["mapval$"+mk+lf.Suffix] = SArr(SInt, SArr(ks, lf.Sort))
	}
	out["maplen"] = SArr(SInt, SInt)
	return out
}

func (c *FnCtx) mapKeyTerm(m *types.Map, k SV) (Term, Sort) {
	ks := c.scalarSort(m.Key())
	if ks == "" {
		c.abstract("map with compound key type " + m.Key().String())
		return c.vc.Fresh("mapkey", SInt), SInt
	}
	return c.scalarOf(k, ks), ks
}

func (c *FnCtx) mapInit(st *State, mt types.Type, r Term) {
	m := mt.Underlying().(*types.Map)
	ks := c.scalarSort(m.Key())
	if ks == "" {
		ks = SInt
	}
	mk := typeKey(m)
	domS := SArr(SInt, SArr(ks, SBool))
	dom := c.heapGet(st, "mapdom$"+mk, domS)
	empty := Term{fmt.Sprintf("((as const %s) false)", SArr(ks, SBool)), SArr(ks, SBool)}
	c.heapSet(st, "mapdom$"+mk, c.vc.Name("h", Store(dom, r, empty)))
	ml := c.heapGet(st, "maplen", SArr(SInt, SInt))
	c.heapSet(st, "maplen", c.vc.Name("h", Store(ml, r, IntLit(0))))
}

func (c *FnCtx) mapLen(st *State, ref Term) Term {
	ml := c.heapGet(st, "maplen", SArr(SInt, SInt))
	l := Select(ml, ref, SInt)
	c.vc.Assert(App(SBool, ">=", l, IntLit(0)))
	return Ite(Eq(ref, IntLit(0)), IntLit(0), l)
}

// mapLenWitness: a map of positive length has a key (named by a fresh constant for this read).
func (c *FnCtx) mapLenWitness(st *State, m *types.Map, ref Term) {
	dom, ks := c.mapDom(st, m, ref)
	ml := c.heapGet(st, "maplen", SArr(SInt, SInt))
	w := c.vc.Fresh("mapwit", ks)
	c.vc.Assert(Implies(And(Not(Eq(ref, IntLit(0))), App(SBool, ">", Select(ml, ref, SInt), IntLit(0))), Select(dom, w, SBool)))
}

func (c *FnCtx) mapDom(st *State, m *types.Map, ref Term) (Term, Sort) {
	ks := c.scalarSort(m.Key())
	if ks == "" {
		ks = SInt
	}
	dom := c.heapGet(st, "mapdom$"+typeKey(m), SArr(SInt, SArr(ks, SBool)))
	return Select(dom, ref, SArr(ks, SBool)), ks
}

func (c *FnCtx) mapValLoc(m *types.Map, ref, key Term) *Loc {
	k := key
	return &Loc{Prefix: "mapval$" + typeKey(m), Idx: ref, Idx2: &k, T: m.Elem()}
}

func (c *FnCtx) mapRead(st *State, m *types.Map, ref, key Term) (SV, Term) {
	dom, _ := c.mapDom(st, m, ref)
	has := And(Not(Eq(ref, IntLit(0))), Select(dom, key, SBool))
	var v SV
	if structOf(m.Elem()) != nil {
		c.abstract("map with struct values")
		v = c.freshValue(m.Elem(), "mv")
	} else {
		v = c.loadLocKeyed(st, c.mapValLoc(m, ref, key))
	}
	return v, has
}

// loadLocKeyed is loadLoc for locations whose second index has a non-Int sort (map keys).
func (c *FnCtx) loadLocKeyed(st *State, loc *Loc) SV {
	t := loc.T
	ks := loc.Idx2.Sort
	read := func(lf Leaf) Term {
		name := loc.Prefix + lf.Suffix
		h := c.heapGet(st, name, SArr(SInt, SArr(ks, lf.Sort)))
		return Select(Select(h, loc.Idx, SArr(ks, lf.Sort)), *loc.Idx2, lf.Sort)
	}
	ls := c.leaves(t)
	switch len(ls) {
	case 1:
		v := read(ls[0])
		if p, ok := t.Underlying().(*types.Pointer); ok && structOf(p.Elem()) == nil {
			return Ad{Loc: &Loc{Prefix: "cell$" + typeKey(p.Elem()), Idx: v, T: p.Elem()}}
		}
		if _, ok := t.Underlying().(*types.Signature); ok {
			return Fn{Opaque: v}
		}
		return Sc{v}
	case 2:
		return If{Tag: read(ls[0]), ID: read(ls[1])}
	case 4:
		sl := Sl{read(ls[0]), read(ls[1]), read(ls[2]), read(ls[3])}
		if c.vc.quant == 0 {
			c.vc.Assert(And(App(SBool, "<=", IntLit(0), sl.Off), App(SBool, "<=", IntLit(0), sl.Len), App(SBool, "<=", sl.Len, sl.Cap)))
		}
		return sl
	}
	c.abstract("unsupported map value type " + t.String())
	return c.freshValue(t, "mv")
}

func (c *FnCtx) storeLocKeyed(st *State, loc *Loc, v SV) {
	t := loc.T
	ks := loc.Idx2.Sort
	write := func(lf Leaf, val Term) {
		name := loc.Prefix + lf.Suffix
		hs := SArr(SInt, SArr(ks, lf.Sort))
		h := c.heapGet(st, name, hs)
		inner := Select(h, loc.Idx, SArr(ks, lf.Sort))
		c.heapSet(st, name, c.vc.Name("h", Store(h, loc.Idx, Store(inner, *loc.Idx2, val))))
		c.noteWrite(st, name, loc)
	}
	ls := c.leaves(t)
	switch len(ls) {
	case 1:
		write(ls[0], c.scalarOf(v, ls[0].Sort))
		return
	case 2:
		iv := c.toIface(v, t)
		write(ls[0], iv.Tag)
		write(ls[1], iv.ID)
		return
	case 4:
		if sl, ok := v.(Sl); ok {
			write(ls[0], sl.Arr)
			write(ls[1], sl.Off)
			write(ls[2], sl.Len)
			write(ls[3], sl.Cap)
			return
		}
	}
	c.abstract("unsupported map value store " + t.String())
}

func (c *FnCtx) lookup(fr *Frame, st *State, x *ssa.Lookup) SV {
	if b := basicOf(x.X.Type()); b != nil && b.Info()&types.IsString != 0 {
		// string index
		s := c.term(fr, st, x.X)
		idx := c.intTerm(c.term(fr, st, x.Index))
		c.safety("idx", st, And(App(SBool, "<=", IntLit(0), idx), App(SBool, "<", idx, c.strLen(s))))
		at := c.strAt(s, idx)
		c.vc.Assert(And(App(SBool, "<=", IntLit(0), at), App(SBool, "<=", at, IntLit(255))))
		return Sc{at}
	}
	m := x.X.Type().Underlying().(*types.Map)
	ref := c.term(fr, st, x.X)
	key, _ := c.mapKeyTerm(m, c.val(fr, st, x.Index))
	v, has := c.mapRead(st, m, ref, key)
	z := c.zeroValue(m.Elem())
	val := c.mergeSV(has, v, z)
	if x.CommaOk {
		return Tu{Elems: []SV{val, Sc{has}}}
	}
	return val
}

func (c *FnCtx) mapUpdate(fr *Frame, st *State, x *ssa.MapUpdate) {
	m := x.Map.Type().Underlying().(*types.Map)
	ref := c.term(fr, st, x.Map)
	c.nilSafety(st, ref)
	key, ks := c.mapKeyTerm(m, c.val(fr, st, x.Key))
	c.mapStore(st, m, ref, key, ks, c.val(fr, st, x.Value))
}

func (c *FnCtx) mapStore(st *State, m *types.Map, ref, key Term, ks Sort, v SV) {
	mk := typeKey(m)
	domS := SArr(SInt, SArr(ks, SBool))
	domH := c.heapGet(st, "mapdom$"+mk, domS)
	dom := Select(domH, ref, SArr(ks, SBool))
	had := Select(dom, key, SBool)
	ml := c.heapGet(st, "maplen", SArr(SInt, SInt))
	c.heapSet(st, "maplen", c.vc.Name("h", Store(ml, ref, App(SInt, "+", Select(ml, ref, SInt), Ite(had, IntLit(0), IntLit(1))))))
	c.heapSet(st, "mapdom$"+mk, c.vc.Name("h", Store(domH, ref, Store(dom, key, TTrue))))
	c.noteWrite(st, "mapdom$"+mk, &Loc{Prefix: "mapdom$" + mk, Idx: ref})
	if structOf(m.Elem()) != nil {
		c.abstract("map with struct values")
		return
	}
	c.storeLocKeyed(st, c.mapValLoc(m, ref, key), v)
}

func (c *FnCtx) mapDelete(st *State, m *types.Map, ref, key Term, ks Sort) {
	mk := typeKey(m)
	domS := SArr(SInt, SArr(ks, SBool))
	domH := c.heapGet(st, "mapdom$"+mk, domS)
	dom := Select(domH, ref, SArr(ks, SBool))
	had := And(Not(Eq(ref, IntLit(0))), Select(dom, key, SBool))
	ml := c.heapGet(st, "maplen", SArr(SInt, SInt))
	c.heapSet(st, "maplen", c.vc.Name("h", Store(ml, ref, App(SInt, "-", Select(ml, ref, SInt), Ite(had, IntLit(1), IntLit(0))))))
	c.heapSet(st, "mapdom$"+mk, c.vc.Name("h", Store(domH, ref, Store(dom, key, TFalse))))
	c.noteWrite(st, "mapdom$"+mk, &Loc{Prefix: "mapdom$" + mk, Idx: ref})
}

// range over maps / strings: the iterator is an object with a ghost `visited` set.
func (c *FnCtx) rangeInit(fr *Frame, st *State, x *ssa.Range) SV {
	it := c.allocRef(st, "iter")
	if m, ok := x.X.Type().Underlying().(*types.Map); ok {
		ks := c.scalarSort(m.Key())
		if ks == "" {
			ks = SInt
		}
		name := "iter$visited$" + string(ks)
		h := c.heapGet(st, name, SArr(SInt, SArr(ks, SBool)))
		empty := Term{fmt.Sprintf("((as const %s) false)", SArr(ks, SBool)), SArr(ks, SBool)}
		c.heapSet(st, name, c.vc.Name("h", Store(h, it, empty)))
	} else {
		h := c.heapGet(st, "iter$pos", SArr(SInt, SInt))
		c.heapSet(st, "iter$pos", c.vc.Name("h", Store(h, it, IntLit(0))))
	}
	return Sc{it}
}

func (c *FnCtx) rangeNext(fr *Frame, st *State, x *ssa.Next) SV {
	it := c.term(fr, st, x.Iter)
	rng, _ := x.Iter.(*ssa.Range)
	tup := x.Type().(*types.Tuple)
	if x.IsString || rng == nil {
		// string iteration: position strictly increases; runes abstract
		h := c.heapGet(st, "iter$pos", SArr(SInt, SInt))
		pos := Select(h, it, SInt)
		var s Term
		if rng != nil {
			s = c.term(fr, st, rng.X)
		} else {
			s = c.vc.Fresh("s", SStr)
		}
		c.vc.Assert(App(SBool, ">=", pos, IntLit(0))) // the position starts at 0 and only grows
		ok := App(SBool, "<", pos, c.strLen(s))
		adv := c.vc.Fresh("adv", SInt)
		c.vc.Assert(And(App(SBool, ">=", adv, IntLit(1)), App(SBool, "<=", adv, IntLit(4))))
		np := c.vc.Fresh("npos", SInt)
		c.vc.Assert(Implies(ok, And(Eq(np, App(SInt, "+", pos, adv)), App(SBool, "<=", np, c.strLen(s)))))
		c.heapSet(st, "iter$pos", c.vc.Name("h", Store(h, it, Ite(ok, np, pos))))
		r := c.freshValue(tup.At(2).Type(), "rune")
		return Tu{Elems: []SV{Sc{ok}, Sc{c.coerceInt(pos, tup.At(1).Type())}, r}}
	}
	m := rng.X.Type().Underlying().(*types.Map)
	ref := c.term(fr, st, rng.X)
	ks := c.scalarSort(m.Key())
	if ks == "" {
		ks = SInt
	}
	name := "iter$visited$" + string(ks)
	vh := c.heapGet(st, name, SArr(SInt, SArr(ks, SBool)))
	visited := Select(vh, it, SArr(ks, SBool))
	dom, _ := c.mapDom(st, m, ref)
	ok := c.vc.Fresh("next$ok", SBool)
	k := c.vc.Fresh("next$k", ks)
	// ok ⇒ k is an unvisited key of the map; ¬ok ⇒ every key has been visited
	c.vc.Assert(Implies(ok, And(Not(Eq(ref, IntLit(0))), Select(dom, k, SBool), Not(Select(visited, k, SBool)))))
	c.vc.Assert(Implies(Not(ok), Or(Eq(ref, IntLit(0)), Term{fmt.Sprintf("(forall ((kk %s)) (=> (select %s kk) (select %s kk)))", ks, dom.S, visited.S), SBool})))
	c.heapSet(st, name, c.vc.Name("h", Store(vh, it, Ite(ok, Store(visited, k, TTrue), visited))))
	var kv SV = Sc{k}
	var vv SV
	if structOf(m.Elem()) != nil {
		vv = c.freshValue(m.Elem(), "mv")
	} else {
		vv = c.loadLocKeyed(st, c.mapValLoc(m, ref, k))
	}
	c.lastNext = &nextInfo{iter: it, key: k, ok: ok, m: m, ref: ref}
	return Tu{Elems: []SV{Sc{ok}, kv, vv}}
}

type nextInfo struct {
	iter, key, ok, ref Term
	m                  *types.Map
}

func (c *FnCtx) coerceInt(t Term, ty types.Type) Term {
	want := c.scalarSort(ty)
	if t.Sort == want {
		return t
	}
	if want.IsBV() && t.Sort == SInt {
		return Term{fmt.Sprintf("((_ int2bv %d) %s)", want.BVWidth(), t.S), want}
	}
	return t
}

