package main

import (
	"fmt"
	"go/types"
	"math/big"
	"sort"
	"strings"

	"golang.org/x/tools/go/ssa"
)

// SV is a symbolic value.
type SV interface{ isSV() }

type Sc struct{ T Term }                 // scalar (ints, bools, floats, strings, refs, time.Time)
type Sl struct{ Arr, Off, Len, Cap Term } // slice header
type If struct {                         // interface value
	Tag, ID Term
	Static  SV // statically known payload (may be nil)
	StaticT types.Type
}
type St struct{ Fields []SV } // struct by value
type Tu struct{ Elems []SV }  // tuple
type Ad struct {              // pointer to a non-struct location
	Cell *cellKey
	Loc  *Loc
}
type Fn struct { // function value
	F      *ssa.Function
	Free   []SV
	Opaque Term
	CID    Term // identity of a closure object (one per executed MakeClosure); specifications only
}

func (Sc) isSV() {}
func (Sl) isSV() {}
func (If) isSV() {}
func (St) isSV() {}
func (Tu) isSV() {}
func (Ad) isSV() {}
func (Fn) isSV() {}

type cellKey struct {
	frame int
	alloc *ssa.Alloc
	idx   int
}

// Loc is a memory location: heap family `Prefix` indexed by Idx (and Idx2 for slice elements).
type Loc struct {
	Prefix string
	Idx    Term
	Idx2   *Term
	T      types.Type
}

type State struct {
	pc    Term
	cells map[cellKey]SV
	heap  map[string]Term
	armed map[*ssa.Defer]Term
	epoch int
	aepoch int // epoch of the atomic families (atomicval$, atomic$...)
	sepoch int // epoch of the shared families under interference (chan$, smap$, ghost$)
	kept   map[string]int // `modifies *!pkg`: package name -> epoch its (not yet referenced) heaps still live in
}

func (s *State) clone() *State {
	n := &State{pc: s.pc, epoch: s.epoch, aepoch: s.aepoch, sepoch: s.sepoch, cells: make(map[cellKey]SV, len(s.cells)), heap: make(map[string]Term, len(s.heap)), armed: make(map[*ssa.Defer]Term, len(s.armed))}
	for k, v := range s.cells {
		n.cells[k] = v
	}
	for k, v := range s.heap {
		n.heap[k] = v
	}
	for k, v := range s.armed {
		n.armed[k] = v
	}
	if len(s.kept) > 0 {
		n.kept = make(map[string]int, len(s.kept))
		for k, v := range s.kept {
			n.kept[k] = v
		}
	}
	return n
}

// ---------------------------------------------------------------------------------------
// types → sorts / leaves

type Leaf struct {
	Suffix string
	Sort   Sort
}

func isTimeTime(t types.Type) bool {
	n, ok := t.(*types.Named)
	if !ok {
		return false
	}
	o := n.Obj()
	return o.Pkg() != nil && o.Pkg().Path() == "time" && o.Name() == "Time"
}

func structOf(t types.Type) *types.Struct {
	if isTimeTime(t) {
		return nil
	}
	s, _ := t.Underlying().(*types.Struct)
	return s
}

func (c *FnCtx) intSort(b *types.Basic) Sort {
	if c.modeBV {
		return SBV(intWidth(b))
	}
	return SInt
}

func intWidth(b *types.Basic) int {
	switch b.Kind() {
	case types.Int8, types.Uint8:
		return 8
	case types.Int16, types.Uint16:
		return 16
	case types.Int32, types.Uint32:
		return 32
	}
	return 64
}

func isUnsigned(b *types.Basic) bool { return b.Info()&types.IsUnsigned != 0 }

func (c *FnCtx) floatSort(b *types.Basic) Sort {
	if c.modeFP {
		if b.Kind() == types.Float32 {
			return SFP32
		}
		return SFP
	}
	return SReal
}

// scalarSort returns the SMT sort of a type represented by a single term, or "" if compound.
func (c *FnCtx) scalarSort(t types.Type) Sort {
	if isTimeTime(t) {
		return SInt
	}
	if tp, ok := t.(*types.TypeParam); ok {
		_ = tp
		return SInt
	}
	switch u := t.Underlying().(type) {
	case *types.Basic:
		switch {
		case u.Info()&types.IsBoolean != 0:
			return SBool
		case u.Info()&types.IsInteger != 0:
			return c.intSort(u)
		case u.Info()&types.IsFloat != 0:
			return c.floatSort(u)
		case u.Info()&types.IsString != 0:
			return SStr
		case u.Kind() == types.UnsafePointer:
			return SInt
		case u.Kind() == types.UntypedNil:
			return SInt
		case u.Info()&types.IsComplex != 0:
			return SReal
		}
	case *types.Pointer, *types.Map, *types.Chan, *types.Signature, *types.Array:
		return SInt
	}
	return ""
}

func (c *FnCtx) leaves(t types.Type) []Leaf {
	if s := c.scalarSort(t); s != "" {
		return []Leaf{{"", s}}
	}
	switch t.Underlying().(type) {
	case *types.Slice:
		return []Leaf{{"$arr", SInt}, {"$off", SInt}, {"$len", SInt}, {"$cap", SInt}}
	case *types.Interface:
		return []Leaf{{"$tag", SInt}, {"$id", SInt}}
	case *types.Tuple:
		return nil
	}
	return nil
}

func pkgQual(p *types.Package) string { return p.Name() }

func typeKey(t types.Type) string {
	if b, ok := t.(*types.Basic); ok {
		switch b.Name() {
		case "byte":
			return "uint8"
		case "rune":
			return "int32"
		}
	}
	s := types.TypeString(t, pkgQual)
	if len(s) > 60 {
		// long anonymous types: shorten deterministically
		h := uint32(2166136261)
		for i := 0; i < len(s); i++ {
			h = (h ^ uint32(s[i])) * 16777619
		}
		s = fmt.Sprintf("%s~%08x", s[:40], h)
	}
	return s
}

func fieldPrefix(structT types.Type, fname string) string {
	return typeKey(structT) + "." + fname
}

// namedOf strips pointers and returns a printable name of the struct type for heap prefixes.
func derefType(t types.Type) types.Type {
	if p, ok := t.Underlying().(*types.Pointer); ok {
		return p.Elem()
	}
	return t
}

// ---------------------------------------------------------------------------------------
// heap access

func (c *FnCtx) heapSort(leaf Sort, twoLevel bool) Sort {
	if twoLevel {
		return SArr(SInt, SArr(SInt, leaf))
	}
	return SArr(SInt, leaf)
}

func atomicHeap(name string) bool {
	return strings.HasPrefix(name, "atomic$") || strings.HasPrefix(name, "atomicval$")
}

func pinnedHeap(name string) bool {
	return name == "alloc" || name == "held$" || strings.HasPrefix(name, "ghost$") || atomicHeap(name)
}

// initHeap is the constant standing for a heap that has not been written since the state's
// last wholesale havoc (epoch). Ghost heaps are never havocked wholesale; the atomic families
// have their own epoch (bumped by `modifies atomic(*)`).
func (c *FnCtx) initHeap(st *State, name string, sort Sort) Term {
	epoch := st.epoch
	if atomicHeap(name) {
		return c.vc.Const(fmt.Sprintf("A%d$%s", st.aepoch, name), sort)
	}
	if st.sepoch > 0 && sharedHeap(name) && name != "chan$cap" {
		return c.vc.Const(fmt.Sprintf("S%d$%s", st.sepoch, name), sort)
	}
	if pinnedHeap(name) {
		epoch = 0
	}
	for x, ep := range st.kept {
		if strings.HasPrefix(name, x+".") || strings.HasPrefix(name, "global$"+x+".") {
			epoch = ep
		}
	}
	return c.vc.Const(fmt.Sprintf("H%d$%s", epoch, name), sort)
}

func (c *FnCtx) heapGet(st *State, name string, sort Sort) Term {
	if t, ok := st.heap[name]; ok {
		return t
	}
	c.heapNames[name] = sort
	return c.initHeap(st, name, sort)
}

func (c *FnCtx) heapSet(st *State, name string, t Term) {
	c.heapNames[name] = t.Sort
	st.heap[name] = t
}

func (c *FnCtx) readLeaf(st *State, loc *Loc, lf Leaf) Term {
	name := loc.Prefix + lf.Suffix
	h := c.heapGet(st, name, c.heapSort(lf.Sort, loc.Idx2 != nil))
	c.lastReadInitial = strings.HasPrefix(h.S, "H0$") || strings.HasPrefix(h.S, "|H0$")
	if loc.Idx2 != nil {
		return Select(Select(h, loc.Idx, SArr(SInt, lf.Sort)), *loc.Idx2, lf.Sort)
	}
	return Select(h, loc.Idx, lf.Sort)
}

func (c *FnCtx) writeLeaf(st *State, loc *Loc, lf Leaf, v Term) {
	name := loc.Prefix + lf.Suffix
	hs := c.heapSort(lf.Sort, loc.Idx2 != nil)
	h := c.heapGet(st, name, hs)
	if v.Sort != lf.Sort {
		c.abstract(fmt.Sprintf("sort mismatch writing %s: %s vs %s", name, v.Sort, lf.Sort))
		v = c.vc.Fresh("mismatch", lf.Sort)
	}
	var nh Term
	if loc.Idx2 != nil {
		inner := Select(h, loc.Idx, SArr(SInt, lf.Sort))
		nh = Store(h, loc.Idx, Store(inner, *loc.Idx2, v))
	} else {
		nh = Store(h, loc.Idx, v)
	}
	c.heapSet(st, name, c.vc.Name("h", nh))
	c.noteWrite(st, name, loc)
}

// subRef gives the reference of a struct stored by value at loc.
// subFacts: sub-references of different fields are different objects, and the map from the
// enclosing object to the embedded one is injective. Instantiated per term (quantifier-free).
func (c *FnCtx) subFacts(name string, f string, sub Term, x Term, k *Term) {
	if c.vc.quant > 0 || c.subDone[sub.S] {
		return
	}
	c.subDone[sub.S] = true
	id, ok := c.subIDs[name]
	if !ok {
		id = len(c.subIDs) + 1
		c.subIDs[name] = id
	}
	tag := c.vc.Declare("subtag", []Sort{SInt}, SInt)
	inv := c.vc.Declare("inv$"+name, []Sort{SInt}, SInt)
	c.vc.Assert(Term{fmt.Sprintf("(and (= (%s %s) %s) (= (%s %s) %d))", inv, sub.S, x.S, tag, sub.S, id), SBool})
}

func (c *FnCtx) subRef(loc *Loc) Term {
	name := "sub$" + loc.Prefix
	if loc.Idx2 != nil {
		f := c.vc.Declare(name, []Sort{SInt, loc.Idx2.Sort}, SInt)
		c.subFuncs[name] = 2
		r := Term{fmt.Sprintf("(%s %s %s)", f, loc.Idx.S, loc.Idx2.S), SInt}
		c.subFacts(name, f, r, loc.Idx, loc.Idx2)
		c.noteSubRoot(r, loc.Idx)
		return r
	}
	f := c.vc.Declare(name, []Sort{SInt}, SInt)
	c.subFuncs[name] = 1
	r := Term{fmt.Sprintf("(%s %s)", f, loc.Idx.S), SInt}
	c.subFacts(name, f, r, loc.Idx, nil)
	c.noteSubRoot(r, loc.Idx)
	return r
}

func (c *FnCtx) noteSubRoot(sub, base Term) {
	if root, ok := c.subRoots[base.S]; ok {
		base = root
	}
	c.subRoots[sub.S] = base
}

func fieldLoc(structT types.Type, i int, ref Term) *Loc {
	s := structT.Underlying().(*types.Struct)
	f := s.Field(i)
	return &Loc{Prefix: fieldPrefix(structT, f.Name()), Idx: ref, T: f.Type()}
}

func (c *FnCtx) loadLoc(st *State, loc *Loc) SV {
	t := loc.T
	if s := c.scalarSort(t); s != "" {
		v := c.readLeaf(st, loc, Leaf{"", s})
		switch t.Underlying().(type) {
		case *types.Pointer, *types.Map, *types.Chan:
			// everything reachable is allocated (or nil); what the entry heap holds was
			// allocated before the function started
			if c.vc.quant == 0 {
				c.assumeAllocated(st, v)
				if c.lastReadInitial {
					// only for objects that themselves existed at entry (a callee may have
					// described fresh objects through the unchanged heap constant)
					c.vc.Assert(Implies(App(SBool, "<", loc.Idx, c.allocInit()), Or(Eq(v, IntLit(0)), And(App(SBool, "<", IntLit(0), v), App(SBool, "<", v, c.allocInit())))))
				}
			}
		}
		if p, ok := t.Underlying().(*types.Pointer); ok {
			if structOf(p.Elem()) == nil {
				return Ad{Loc: &Loc{Prefix: "cell$" + typeKey(p.Elem()), Idx: v, T: p.Elem()}}
			}
		}
		if _, ok := t.Underlying().(*types.Signature); ok {
			return Fn{Opaque: v}
		}
		return Sc{v}
	}
	switch u := t.Underlying().(type) {
	case *types.Slice:
		ls := c.leaves(t)
		arrT := c.readLeaf(st, loc, ls[0])
		arrInitial := c.lastReadInitial
		sl := Sl{arrT, c.readLeaf(st, loc, ls[1]), c.readLeaf(st, loc, ls[2]), c.readLeaf(st, loc, ls[3])}
		if c.vc.quant == 0 {
			c.assumeAllocated(st, sl.Arr)
			if arrInitial {
				c.vc.Assert(Implies(App(SBool, "<", loc.Idx, c.allocInit()), Or(Eq(sl.Arr, IntLit(0)), And(App(SBool, "<", IntLit(0), sl.Arr), App(SBool, "<", sl.Arr, c.allocInit())))))
			}
			c.vc.Assert(And(App(SBool, "<=", IntLit(0), sl.Off), App(SBool, "<=", IntLit(0), sl.Len), App(SBool, "<=", sl.Len, sl.Cap),
				Implies(Eq(sl.Arr, IntLit(0)), And(Eq(sl.Len, IntLit(0)), Eq(sl.Cap, IntLit(0))))))
		}
		return sl
	case *types.Interface:
		ls := c.leaves(t)
		return If{Tag: c.readLeaf(st, loc, ls[0]), ID: c.readLeaf(st, loc, ls[1])}
	case *types.Struct:
		ref := c.subRef(loc)
		return c.loadStruct(st, t, ref)
	default:
		_ = u
	}
	c.abstract("load of unsupported type " + t.String())
	return c.freshValue(t, "unsup")
}

func (c *FnCtx) loadStruct(st *State, t types.Type, ref Term) SV {
	s := t.Underlying().(*types.Struct)
	out := St{Fields: make([]SV, s.NumFields())}
	for i := 0; i < s.NumFields(); i++ {
		out.Fields[i] = c.loadLoc(st, fieldLoc(t, i, ref))
	}
	return out
}

func (c *FnCtx) storeStruct(st *State, t types.Type, ref Term, v SV) {
	s := t.Underlying().(*types.Struct)
	sv, ok := v.(St)
	if !ok {
		c.abstract("store of non-struct value into struct " + t.String())
		return
	}
	for i := 0; i < s.NumFields(); i++ {
		c.storeLoc(st, fieldLoc(t, i, ref), sv.Fields[i])
	}
}

func (c *FnCtx) storeLoc(st *State, loc *Loc, v SV) {
	t := loc.T
	if s := c.scalarSort(t); s != "" {
		c.writeLeaf(st, loc, Leaf{"", s}, c.scalarOf(v, s))
		return
	}
	switch t.Underlying().(type) {
	case *types.Slice:
		ls := c.leaves(t)
		sl, ok := v.(Sl)
		if !ok {
			c.abstract("store non-slice into slice location")
			sl = c.freshValue(t, "unsup").(Sl)
		}
		c.writeLeaf(st, loc, ls[0], sl.Arr)
		c.writeLeaf(st, loc, ls[1], sl.Off)
		c.writeLeaf(st, loc, ls[2], sl.Len)
		c.writeLeaf(st, loc, ls[3], sl.Cap)
	case *types.Interface:
		ls := c.leaves(t)
		iv := c.toIface(v, t)
		c.writeLeaf(st, loc, ls[0], iv.Tag)
		c.writeLeaf(st, loc, ls[1], iv.ID)
	case *types.Struct:
		c.storeStruct(st, t, c.subRef(loc), v)
	default:
		c.abstract("store of unsupported type " + t.String())
	}
}

// scalarOf coerces a value to a single term of the wanted sort.
func (c *FnCtx) scalarOf(v SV, want Sort) Term {
	switch x := v.(type) {
	case Sc:
		if x.T.Sort == want {
			return x.T
		}
		c.abstract(fmt.Sprintf("scalar sort mismatch %s vs %s", x.T.Sort, want))
		return c.vc.Fresh("mis", want)
	case Ad:
		if x.Loc != nil && strings.HasPrefix(x.Loc.Prefix, "cell$") && x.Loc.Idx2 == nil {
			return x.Loc.Idx
		}
		c.abstract("pointer to field/element/local stored in memory")
		return c.vc.Fresh("ptr", want)
	case Fn:
		if x.Opaque.Valid() {
			return x.Opaque
		}
		if x.CID.Valid() {
			// a closure object stored in memory is known by its identity
			return x.CID
		}
		if x.F != nil {
			return c.funcRef(x.F)
		}
	}
	c.abstract(fmt.Sprintf("cannot coerce %T to %s", v, want))
	return c.vc.Fresh("coerce", want)
}

func (c *FnCtx) funcRef(f *ssa.Function) Term {
	t := c.vc.Const("fn$"+f.String(), SInt)
	if !c.funcRefs[t.S] {
		c.funcRefs[t.S] = true
		// distinct functions are distinct values (and none is nil)
		c.vc.Assert(Eq(t, IntLit(int64(len(c.funcRefs)))))
	}
	return t
}

func (c *FnCtx) typeTag(t types.Type) Term {
	key := "tag$" + typeKey(t)
	tm := c.vc.Const(key, SInt)
	if _, ok := c.typeTags[key]; !ok {
		id := len(c.typeTags) + 1
		c.typeTags[key] = id
		c.vc.Assert(Eq(tm, IntLit(int64(id))))
	}
	return tm
}

func (c *FnCtx) toIface(v SV, ifaceT types.Type) If {
	switch x := v.(type) {
	case If:
		return x
	case Sc:
		// nil constant of interface type
		return If{Tag: IntLit(0), ID: IntLit(0)}
	}
	c.abstract(fmt.Sprintf("coerce %T to interface", v))
	return If{Tag: c.vc.Fresh("tag", SInt), ID: c.vc.Fresh("id", SInt)}
}

// box maps a concrete value to the opaque id stored in an interface value.
func (c *FnCtx) box(v SV, t types.Type) Term {
	switch x := v.(type) {
	case Sc:
		if x.T.Sort == SInt {
			return x.T
		}
		name := "box$" + typeKey(t)
		f := c.vc.Declare(name, []Sort{x.T.Sort}, SInt)
		un := c.vc.Declare("un"+name, []Sort{SInt}, x.T.Sort)
		b := Term{fmt.Sprintf("(%s %s)", f, x.T.S), SInt}
		c.vc.Assert(Term{fmt.Sprintf("(= (%s %s) %s)", un, b.S, x.T.S), SBool})
		return b
	}
	return c.vc.Fresh("boxid", SInt)
}

func (c *FnCtx) unbox(id Term, t types.Type) SV {
	if s := c.scalarSort(t); s != "" {
		if s == SInt {
			if p, ok := t.Underlying().(*types.Pointer); ok && structOf(p.Elem()) == nil {
				return Ad{Loc: &Loc{Prefix: "cell$" + typeKey(p.Elem()), Idx: id, T: p.Elem()}}
			}
			return Sc{id}
		}
		name := "unbox$" + typeKey(t)
		f := c.vc.Declare(name, []Sort{SInt}, s)
		return Sc{Term{fmt.Sprintf("(%s %s)", f, id.S), s}}
	}
	if _, ok := t.Underlying().(*types.Slice); ok {
		// a slice held in an interface value: its header is a function of the boxed value's
		// identity (two unboxings of the same value give the same slice)
		k := typeKey(t)
		sl := Sl{c.uf("unbox$arr$"+k, SInt, id), c.uf("unbox$off$"+k, SInt, id), c.uf("unbox$len$"+k, SInt, id), c.uf("unbox$cap$"+k, SInt, id)}
		c.vc.Assert(And(App(SBool, "<=", IntLit(0), sl.Off), App(SBool, "<=", IntLit(0), sl.Len), App(SBool, "<=", sl.Len, sl.Cap), App(SBool, ">=", sl.Arr, IntLit(0)),
			Implies(Eq(sl.Arr, IntLit(0)), And(Eq(sl.Len, IntLit(0)), Eq(sl.Cap, IntLit(0)), Eq(sl.Off, IntLit(0))))))
		return sl
	}
	return c.freshValue(t, "unboxed")
}

// freshValue makes an unconstrained value of type t (with the structural constraints a Go
// value of that type always satisfies).
func (c *FnCtx) freshValue(t types.Type, prefix string) SV {
	if s := c.scalarSort(t); s != "" {
		v := c.vc.Fresh(prefix, s)
		c.assumeTypeRange(v, t)
		if p, ok := t.Underlying().(*types.Pointer); ok && structOf(p.Elem()) == nil {
			return Ad{Loc: &Loc{Prefix: "cell$" + typeKey(p.Elem()), Idx: v, T: p.Elem()}}
		}
		if _, ok := t.Underlying().(*types.Signature); ok {
			return Fn{Opaque: v}
		}
		return Sc{v}
	}
	switch u := t.Underlying().(type) {
	case *types.Slice:
		sl := Sl{c.vc.Fresh(prefix+"$arr", SInt), c.vc.Fresh(prefix+"$off", SInt), c.vc.Fresh(prefix+"$len", SInt), c.vc.Fresh(prefix+"$cap", SInt)}
		c.vc.Assert(And(App(SBool, "<=", IntLit(0), sl.Off), App(SBool, "<=", IntLit(0), sl.Len), App(SBool, "<=", sl.Len, sl.Cap), App(SBool, ">=", sl.Arr, IntLit(0)),
			Implies(Eq(sl.Arr, IntLit(0)), And(Eq(sl.Len, IntLit(0)), Eq(sl.Cap, IntLit(0)), Eq(sl.Off, IntLit(0))))))
		return sl
	case *types.Interface:
		tag := c.vc.Fresh(prefix+"$tag", SInt)
		id := c.vc.Fresh(prefix+"$id", SInt)
		c.vc.Assert(App(SBool, ">=", tag, IntLit(0)))
		c.vc.Assert(Implies(Eq(tag, IntLit(0)), Eq(id, IntLit(0))))
		return If{Tag: tag, ID: id}
	case *types.Struct:
		out := St{Fields: make([]SV, u.NumFields())}
		for i := 0; i < u.NumFields(); i++ {
			out.Fields[i] = c.freshValue(u.Field(i).Type(), prefix+"."+u.Field(i).Name())
		}
		return out
	case *types.Tuple:
		out := Tu{}
		for i := 0; i < u.Len(); i++ {
			out.Elems = append(out.Elems, c.freshValue(u.At(i).Type(), fmt.Sprintf("%s#%d", prefix, i)))
		}
		return out
	}
	c.abstract("fresh value of unsupported type " + t.String())
	return Sc{c.vc.Fresh(prefix, SInt)}
}

var (
	pow2 = func(n int) *big.Int { return new(big.Int).Lsh(big.NewInt(1), uint(n)) }
)

// assumeTypeRange adds the range constraint of machine integers represented as Int.
func (c *FnCtx) assumeTypeRange(v Term, t types.Type) {
	c.vc.Assert(c.typeRange(v, t))
}

func (c *FnCtx) typeRange(v Term, t types.Type) Term {
	if v.Sort != SInt {
		return TTrue
	}
	if isTimeTime(t) {
		return TTrue
	}
	switch u := t.Underlying().(type) {
	case *types.Basic:
		if u.Info()&types.IsInteger != 0 {
			w := intWidth(u)
			if isUnsigned(u) {
				hi := new(big.Int).Sub(pow2(w), big.NewInt(1))
				return And(App(SBool, "<=", IntLit(0), v), App(SBool, "<=", v, BigIntLit(hi)))
			}
			lo := new(big.Int).Neg(pow2(w - 1))
			hi := new(big.Int).Sub(pow2(w-1), big.NewInt(1))
			return And(App(SBool, "<=", BigIntLit(lo), v), App(SBool, "<=", v, BigIntLit(hi)))
		}
	case *types.Pointer, *types.Map, *types.Chan, *types.Signature, *types.Array:
		return App(SBool, ">=", v, IntLit(0))
	}
	return TTrue
}

// zeroValue of a type.
func (c *FnCtx) zeroValue(t types.Type) SV {
	if s := c.scalarSort(t); s != "" {
		if p, ok := t.Underlying().(*types.Pointer); ok && structOf(p.Elem()) == nil {
			return Ad{Loc: &Loc{Prefix: "cell$" + typeKey(p.Elem()), Idx: IntLit(0), T: p.Elem()}}
		}
		if _, ok := t.Underlying().(*types.Signature); ok {
			return Fn{Opaque: IntLit(0)}
		}
		return Sc{c.zeroTerm(s)}
	}
	switch u := t.Underlying().(type) {
	case *types.Slice:
		z := IntLit(0)
		return Sl{z, z, z, z}
	case *types.Interface:
		return If{Tag: IntLit(0), ID: IntLit(0)}
	case *types.Struct:
		out := St{Fields: make([]SV, u.NumFields())}
		for i := 0; i < u.NumFields(); i++ {
			out.Fields[i] = c.zeroValue(u.Field(i).Type())
		}
		return out
	}
	return Sc{IntLit(0)}
}

func (c *FnCtx) zeroTerm(s Sort) Term {
	switch {
	case s == SInt:
		return IntLit(0)
	case s == SBool:
		return TFalse
	case s == SReal:
		return Term{"0.0", SReal}
	case s == SStr:
		return c.strLit("")
	case s.IsBV():
		return BVLit(big.NewInt(0), s.BVWidth())
	case s == SFP:
		return FPLit(0)
	case s == SFP32:
		return Term{"((_ to_fp 8 24) RNE 0.0)", SFP32}
	}
	return c.vc.Fresh("zero", s)
}

// strLit declares a string literal constant with its length and distinctness facts.
func (c *FnCtx) strLit(s string) Term {
	if t, ok := c.strLits[s]; ok {
		return t
	}
	name := fmt.Sprintf("str$%d", len(c.strLits))
	t := c.vc.Const(name, SStr)
	// facts about a literal are closed terms: they are asserted globally even when the literal
	// is first met inside a quantifier body (where other side facts are dropped)
	raw := func(x Term) { c.vc.assertRaw("(assert " + x.S + ")") }
	lenT := Term{fmt.Sprintf("(%s %s)", c.vc.Declare("strlen", []Sort{SStr}, SInt), t.S), SInt}
	raw(App(SBool, ">=", lenT, IntLit(0)))
	c.strLenDone[lenT.S] = true
	raw(Eq(lenT, IntLit(int64(len(s)))))
	// distinct from all previous literals
	keys := make([]string, 0, len(c.strLits))
	for k := range c.strLits {
		keys = append(keys, k)
	}
	sort.Strings(keys)
	for _, k := range keys {
		raw(Not(Eq(t, c.strLits[k])))
	}
	c.strLits[s] = t
	c.strLitText[t.S] = s
	// byte view for short literals
	if len(s) <= 16 {
		for i := 0; i < len(s); i++ {
			raw(Eq(c.strAt(t, IntLit(int64(i))), IntLit(int64(s[i]))))
		}
	}
	return t
}

func (c *FnCtx) strLen(s Term) Term {
	f := c.vc.Declare("strlen", []Sort{SStr}, SInt)
	t := Term{fmt.Sprintf("(%s %s)", f, s.S), SInt}
	// lengths are non-negative: asserted per term (no quantifier, so models stay available)
	if c.vc.quant == 0 && !c.strLenDone[t.S] {
		c.strLenDone[t.S] = true
		c.vc.Assert(App(SBool, ">=", t, IntLit(0)))
	}
	return t
}

func (c *FnCtx) strAt(s, i Term) Term {
	f := c.vc.Declare("strat", []Sort{SStr, SInt}, SInt)
	return Term{fmt.Sprintf("(%s %s %s)", f, s.S, i.S), SInt}
}

func (c *FnCtx) uf(name string, res Sort, args ...Term) Term {
	var sorts []Sort
	for _, a := range args {
		sorts = append(sorts, a.Sort)
	}
	f := c.vc.Declare(name, sorts, res)
	if len(args) == 0 {
		return Term{f, res}
	}
	return App(res, f, args...)
}

// ---------------------------------------------------------------------------------------
// merging

func (c *FnCtx) mergeTerm(g Term, a, b Term) Term {
	if a.S == b.S {
		return a
	}
	if a.Sort != b.Sort {
		c.abstract("merge of terms with different sorts")
		return c.vc.Fresh("mergemis", a.Sort)
	}
	return c.vc.Name("m", Ite(g, a, b))
}

func (c *FnCtx) mergeSV(g Term, a, b SV) SV {
	switch x := a.(type) {
	case Sc:
		if y, ok := b.(Sc); ok {
			m := c.mergeTerm(g, x.T, y.T)
			if c.extPtrs != nil {
				wx, okx := c.extPtrs[x.T.S]
				wy, oky := c.extPtrs[y.T.S]
				if okx || oky {
					// a value that may be a dependency's (pointer, error) result stays one after
					// a join, on the side it came from
					if !okx {
						wx = TFalse
					}
					if !oky {
						wy = TFalse
					}
					c.extPtrs[m.S] = Or(And(g, wx), And(Not(g), wy))
				}
			}
			return Sc{m}
		}
	case Sl:
		if y, ok := b.(Sl); ok {
			return Sl{c.mergeTerm(g, x.Arr, y.Arr), c.mergeTerm(g, x.Off, y.Off), c.mergeTerm(g, x.Len, y.Len), c.mergeTerm(g, x.Cap, y.Cap)}
		}
	case If:
		if y, ok := b.(If); ok {
			r := If{Tag: c.mergeTerm(g, x.Tag, y.Tag), ID: c.mergeTerm(g, x.ID, y.ID)}
			return r
		}
	case St:
		if y, ok := b.(St); ok && len(x.Fields) == len(y.Fields) {
			out := St{Fields: make([]SV, len(x.Fields))}
			for i := range x.Fields {
				out.Fields[i] = c.mergeSV(g, x.Fields[i], y.Fields[i])
			}
			return out
		}
	case Tu:
		if y, ok := b.(Tu); ok && len(x.Elems) == len(y.Elems) {
			out := Tu{Elems: make([]SV, len(x.Elems))}
			for i := range x.Elems {
				out.Elems[i] = c.mergeSV(g, x.Elems[i], y.Elems[i])
			}
			return out
		}
	case Ad:
		if y, ok := b.(Ad); ok {
			if x.Cell != nil && y.Cell != nil && *x.Cell == *y.Cell {
				return x
			}
			if x.Loc != nil && y.Loc != nil && x.Loc.Prefix == y.Loc.Prefix && (x.Loc.Idx2 == nil) == (y.Loc.Idx2 == nil) {
				l := &Loc{Prefix: x.Loc.Prefix, Idx: c.mergeTerm(g, x.Loc.Idx, y.Loc.Idx), T: x.Loc.T}
				if x.Loc.Idx2 != nil {
					i2 := c.mergeTerm(g, *x.Loc.Idx2, *y.Loc.Idx2)
					l.Idx2 = &i2
				}
				return Ad{Loc: l}
			}
		}
	case Fn:
		if y, ok := b.(Fn); ok {
			if x.F != nil && x.F == y.F && len(x.Free) == 0 {
				return x
			}
			if x.Opaque.Valid() && y.Opaque.Valid() {
				return Fn{Opaque: c.mergeTerm(g, x.Opaque, y.Opaque)}
			}
		}
	}
	c.abstract(fmt.Sprintf("merge of incompatible values %T / %T", a, b))
	return a
}

type edgeState struct {
	st    *State
	guard Term // full path condition of the edge
}

func (c *FnCtx) mergeStates(ins []edgeState) *State {
	if len(ins) == 0 {
		return nil
	}
	if len(ins) == 1 {
		s := ins[0].st.clone()
		s.pc = ins[0].guard
		return s
	}
	var guards []Term
	for _, e := range ins {
		guards = append(guards, e.guard)
	}
	out := ins[len(ins)-1].st.clone()
	last := ins[len(ins)-1].st
	sameEpoch := true
	for _, e := range ins {
		if e.st.epoch != out.epoch || e.st.aepoch != out.aepoch || e.st.sepoch != out.sepoch {
			sameEpoch = false
		}
	}
	if !sameEpoch {
		// materialise every known heap in `out` under the last state's epoch, then move to a
		// fresh epoch for names never seen so far (conservative: they become unconstrained)
		for k, srt := range c.heapNames {
			if _, ok := out.heap[k]; !ok {
				out.heap[k] = c.initHeap(last, k, srt)
			}
		}
		c.epochs++
		out.epoch = c.epochs
		out.kept = nil
		out.aepoch = c.epochs
		if out.sepoch > 0 {
			out.sepoch = c.epochs
		}
	}
	// fold from the last to the first
	for i := len(ins) - 2; i >= 0; i-- {
		e := ins[i]
		g := e.guard
		// cells
		keys := map[cellKey]bool{}
		for k := range out.cells {
			keys[k] = true
		}
		for k := range e.st.cells {
			keys[k] = true
		}
		for k := range keys {
			a, okA := e.st.cells[k]
			b, okB := out.cells[k]
			switch {
			case okA && okB:
				out.cells[k] = c.mergeSV(g, a, b)
			case okA:
				out.cells[k] = a
			}
		}
		// heaps
		hk := map[string]bool{}
		for k := range out.heap {
			hk[k] = true
		}
		for k := range e.st.heap {
			hk[k] = true
		}
		if !sameEpoch {
			for k := range c.heapNames {
				hk[k] = true
			}
		}
		for k := range hk {
			srt := c.heapNames[k]
			a := c.heapGetAt(e.st, k, srt)
			b, ok := out.heap[k]
			if !ok {
				b = c.initHeap(last, k, srt)
			}
			out.heap[k] = c.mergeTerm(g, a, b)
		}
		// armed flags
		dk := map[*ssa.Defer]bool{}
		for k := range out.armed {
			dk[k] = true
		}
		for k := range e.st.armed {
			dk[k] = true
		}
		for k := range dk {
			a, okA := e.st.armed[k]
			if !okA {
				a = TFalse
			}
			b, okB := out.armed[k]
			if !okB {
				b = TFalse
			}
			out.armed[k] = c.mergeTerm(g, a, b)
		}
	}
	out.pc = c.vc.Name("pc", Or(guards...))
	return out
}

func (c *FnCtx) heapGetAt(st *State, name string, sort Sort) Term {
	if t, ok := st.heap[name]; ok {
		return t
	}
	return c.initHeap(st, name, sort)
}

// ix(off, j): index of element j of a slice with offset off inside its backing array. Kept
// behind an uninterpreted function (with the defining axiom ix(o,j) = o+j) so that quantified
// facts over slice elements have triggers free of arithmetic; offset 0 needs no wrapper.
func (c *FnCtx) ix(off, j Term) Term {
	if off.S == "0" {
		return j
	}
	return Term{c.ixS(off.S, j.S), SInt}
}

func (c *FnCtx) ixS(off, j string) string {
	if off == "0" {
		return j
	}
	f := c.vc.Declare("ix", []Sort{SInt, SInt}, SInt)
	if !c.ixAxiom {
		c.ixAxiom = true
		c.vc.assertRaw(fmt.Sprintf("(assert (forall ((o Int) (j Int)) (! (= (%s o j) (+ o j)) :pattern ((%s o j)))))", f, f))
	}
	return fmt.Sprintf("(%s %s %s)", f, off, j)
}
