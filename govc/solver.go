package main

import (
	"bytes"
	"context"
	"fmt"
	"os"
	"os/exec"
	"path/filepath"
	"strings"
	"sync"
	"time"
)

type SolverAnswer struct {
	Solver string  `json:"solver"`
	Status string  `json:"status"` // unsat | sat | unknown | timeout | error
	Secs   float64 `json:"secs"`
	Raw    string  `json:"raw,omitempty"`
}

type SolveResult struct {
	Status  string         `json:"status"` // unsat | sat | unknown
	Winner  string         `json:"winner"`
	Secs    float64        `json:"secs"`
	Answers []SolverAnswer `json:"answers"`
	Model   []string       `json:"model,omitempty"`
}

var solverCmds = []struct {
	name string
	argv func(file string, tmo int, seed int) []string
}{
	{"z3-4.8.12", func(f string, tmo, seed int) []string {
		return []string{"/usr/bin/z3", fmt.Sprintf("-T:%d", tmo), fmt.Sprintf("smt.random_seed=%d", seed), f}
	}},
	{"z3-5.1.0", func(f string, tmo, seed int) []string {
		return []string{"z3-new", fmt.Sprintf("-T:%d", tmo), fmt.Sprintf("smt.random_seed=%d", seed), f}
	}},
	{"cvc5-1.0", func(f string, tmo, seed int) []string {
		return []string{"cvc5", "--produce-models", fmt.Sprintf("--tlimit=%d", tmo*1000), fmt.Sprintf("--seed=%d", seed), f}
	}},
}

var workDir string

func initWorkDir() {
	d, err := os.MkdirTemp("", "govc-work-")
	if err != nil {
		panic(err)
	}
	workDir = d
}

func cleanupWorkDir() {
	if workDir != "" {
		os.RemoveAll(workDir)
	}
}

var queryCounter struct {
	sync.Mutex
	n int
}

// Solve races the installed solvers on one query. In `agree` mode it waits for all of them
// (used by the thorough tier to detect contradictory answers).
func Solve(query string, timeoutSec int, seed int, agree bool) SolveResult {
	queryCounter.Lock()
	queryCounter.n++
	id := queryCounter.n
	queryCounter.Unlock()
	file := filepath.Join(workDir, fmt.Sprintf("q%d.smt2", id))
	if err := os.WriteFile(file, []byte(query), 0o644); err != nil {
		return SolveResult{Status: "unknown", Answers: []SolverAnswer{{Solver: "-", Status: "error", Raw: err.Error()}}}
	}
	defer os.Remove(file)

	ctx, cancel := context.WithCancel(context.Background())
	defer cancel()
	type ans struct {
		SolverAnswer
		model []string
	}
	ch := make(chan ans, len(solverCmds))
	start := time.Now()
	for _, sc := range solverCmds {
		sc := sc
		go func() {
			t0 := time.Now()
			argv := sc.argv(file, timeoutSec, seed)
			c, ccancel := context.WithTimeout(ctx, time.Duration(timeoutSec+5)*time.Second)
			defer ccancel()
			cmd := exec.CommandContext(c, argv[0], argv[1:]...)
			var out bytes.Buffer
			cmd.Stdout = &out
			cmd.Stderr = &out
			_ = cmd.Run()
			text := out.String()
			lines := strings.Split(strings.TrimSpace(text), "\n")
			first := ""
			if len(lines) > 0 {
				first = strings.TrimSpace(lines[0])
			}
			a := ans{}
			a.Solver = sc.name
			a.Secs = time.Since(t0).Seconds()
			switch {
			case first == "unsat":
				a.Status = "unsat"
			case first == "sat":
				a.Status = "sat"
				a.model = lines[1:]
			case first == "unknown":
				a.Status = "unknown"
			case strings.Contains(first, "timeout") || strings.Contains(text, "interrupted by timeout") || c.Err() != nil:
				a.Status = "timeout"
			default:
				a.Status = "error"
				if len(text) > 300 {
					text = text[:300]
				}
				a.Raw = text
			}
			ch <- a
		}()
	}
	res := SolveResult{Status: "unknown"}
	for i := 0; i < len(solverCmds); i++ {
		a := <-ch
		res.Answers = append(res.Answers, a.SolverAnswer)
		if a.Status == "unsat" || a.Status == "sat" {
			if res.Winner == "" {
				res.Status = a.Status
				res.Winner = a.Solver
				res.Secs = time.Since(start).Seconds()
				res.Model = a.model
			} else if res.Status != a.Status {
				res.Status = "contradiction"
			}
			if !agree {
				cancel()
				break
			}
			// agreement mode: the other solvers get a short grace period to contradict
			go func() {
				time.Sleep(8 * time.Second)
				cancel()
			}()
		}
	}
	if res.Winner == "" {
		res.Secs = time.Since(start).Seconds()
	}
	return res
}
