package main

import (
	"fmt"
	"go/types"

	"golang.org/x/tools/go/ssa"
)

// Channels are abstract objects: len, cap, closed, plus ghost counters of completed sends and
// receives. A blocking operation that completes was enabled (partial correctness); whether it
// can block is a separate `nonblock` obligation where a contract asks for it.

func (c *FnCtx) chanInit(st *State, r Term, size Term) {
	set := func(name string, s Sort, v Term) {
		h := c.heapGet(st, name, SArr(SInt, s))
		c.heapSet(st, name, c.vc.Name("h", Store(h, r, v)))
	}
	set("chan$len", SInt, IntLit(0))
	set("chan$cap", SInt, c.intTerm(size))
	set("chan$closed", SBool, TFalse)
	set("chan$sent", SInt, IntLit(0))
	set("chan$recvd", SInt, IntLit(0))
	set("chan$esc", SBool, TFalse)
}

// escapeChan: a channel value leaves the function's sight (boxed into an interface, passed to
// a call or a goroutine, stored in memory, sent over a channel): from then on code outside the
// function may send on it, receive from it or close it at any time.
func (c *FnCtx) escapeChan(st *State, v SV, t types.Type) {
	if t == nil {
		return
	}
	if _, ok := t.Underlying().(*types.Chan); !ok {
		return
	}
	sc, ok := v.(Sc)
	if !ok {
		return
	}
	c.chanSet(st, "chan$esc", SBool, sc.T, TTrue)
}

// envActs: before an operation on channel ch in a sequential function (no interference
// invariant), an escaped channel is in an arbitrary state allowed by its capacity; closed stays
// closed. Without this a receive on a channel created here and handed to a dependency (the WARC
// feedback channel) could never complete in the model and everything after it was dead code.
func (c *FnCtx) envActs(st *State, ch Term) {
	if c.og != nil && c.og.inv != nil {
		return
	}
	esc := c.chanField(st, "chan$esc", SBool, ch)
	if esc.IsFalse() {
		return
	}
	l := c.chanField(st, "chan$len", SInt, ch)
	cl := c.chanField(st, "chan$closed", SBool, ch)
	nl := c.vc.Fresh("env$len", SInt)
	ncl := c.vc.Fresh("env$closed", SBool)
	c.chanSet(st, "chan$len", SInt, ch, c.vc.Name("envlen", Ite(esc, nl, l)))
	c.chanSet(st, "chan$closed", SBool, ch, c.vc.Name("envcl", Ite(esc, Or(cl, ncl), cl)))
}

func (c *FnCtx) chanField(st *State, name string, s Sort, ch Term) Term {
	return Select(c.heapGet(st, name, SArr(SInt, s)), ch, s)
}

func (c *FnCtx) chanSet(st *State, name string, s Sort, ch, v Term) {
	h := c.heapGet(st, name, SArr(SInt, s))
	c.heapSet(st, name, c.vc.Name("h", Store(h, ch, v)))
}

func (c *FnCtx) chanFacts(st *State, ch Term) {
	l := c.chanField(st, "chan$len", SInt, ch)
	cp := c.chanField(st, "chan$cap", SInt, ch)
	c.vc.Assert(And(App(SBool, "<=", IntLit(0), l), App(SBool, "<=", IntLit(-1), cp), Implies(App(SBool, ">", cp, IntLit(0)), App(SBool, "<=", l, cp)), Implies(App(SBool, "<=", cp, IntLit(0)), Eq(l, IntLit(0)))))
}

func (c *FnCtx) sendEnabled(st *State, ch Term) Term {
	// a send completes when there is buffer space or a receiver is waiting (unbuffered or
	// full channels with a concurrent receiver): in the abstract model a send is enabled when
	// len < cap, or cap == 0 (rendezvous with some receiver)
	l := c.chanField(st, "chan$len", SInt, ch)
	cp := c.chanField(st, "chan$cap", SInt, ch)
	return And(Not(Eq(ch, IntLit(0))), Or(App(SBool, "<", l, cp), Eq(cp, IntLit(0))))
}

func (c *FnCtx) recvEnabled(st *State, ch Term) Term {
	l := c.chanField(st, "chan$len", SInt, ch)
	cp := c.chanField(st, "chan$cap", SInt, ch)
	cl := c.chanField(st, "chan$closed", SBool, ch)
	return And(Not(Eq(ch, IntLit(0))), Or(App(SBool, ">", l, IntLit(0)), cl, Eq(cp, IntLit(0))))
}

// applySend: effect of a completed send under condition g.
func (c *FnCtx) applySend(st *State, ch Term, g Term) {
	l := c.chanField(st, "chan$len", SInt, ch)
	cp := c.chanField(st, "chan$cap", SInt, ch)
	// buffered: len+1; rendezvous (cap 0): handed over directly
	nl := Ite(And(g, App(SBool, ">", cp, IntLit(0))), App(SInt, "+", l, IntLit(1)), l)
	c.chanSet(st, "chan$len", SInt, ch, nl)
	s := c.chanField(st, "chan$sent", SInt, ch)
	c.chanSet(st, "chan$sent", SInt, ch, Ite(g, App(SInt, "+", s, IntLit(1)), s))
}

// applyRecv: effect of a completed receive under condition g; returns ok (value received).
func (c *FnCtx) applyRecv(st *State, ch Term, g Term) Term {
	l := c.chanField(st, "chan$len", SInt, ch)
	cp := c.chanField(st, "chan$cap", SInt, ch)
	cl := c.chanField(st, "chan$closed", SBool, ch)
	hasBuf := App(SBool, ">", l, IntLit(0))
	// ok = a value was delivered: from the buffer, or by rendezvous on an open unbuffered chan
	ok := c.vc.Name("rok", Or(hasBuf, And(Eq(cp, IntLit(0)), Not(cl))))
	c.chanSet(st, "chan$len", SInt, ch, Ite(And(g, hasBuf), App(SInt, "-", l, IntLit(1)), l))
	r := c.chanField(st, "chan$recvd", SInt, ch)
	c.chanSet(st, "chan$recvd", SInt, ch, Ite(And(g, ok), App(SInt, "+", r, IntLit(1)), r))
	return ok
}

func (c *FnCtx) chanSend(fr *Frame, st *State, x *ssa.Send) {
	ch := c.term(fr, st, x.Chan)
	c.callSiteAsserts(fr, st, x)
	key := c.opKeyOf(fr, x)
	c.ogBefore(fr, st, key)
	c.escapeChan(st, c.val(fr, st, x.X), x.X.Type())
	c.envActs(st, ch)
	c.chanFacts(st, ch)
	c.safety("closed", st, Not(c.chanField(st, "chan$closed", SBool, ch)))
	en := c.sendEnabled(st, ch)
	c.nonblock(fr, st, key, en)
	st.pc = c.vc.Name("pc", And(st.pc, en))
	c.opCover(fr, st, key, st.pc)
	c.event(st, "send", ch)
	c.applySend(st, ch, TTrue)
	c.ogAfter(fr, st, key, nil)
}

func (c *FnCtx) chanRecv(fr *Frame, st *State, x *ssa.UnOp) SV {
	ch := c.term(fr, st, x.X)
	et := x.X.Type().Underlying().(*types.Chan).Elem()
	key := c.opKeyOf(fr, x)
	c.callSiteAsserts(fr, st, x)
	c.ogBefore(fr, st, key)
	c.envActs(st, ch)
	c.chanFacts(st, ch)
	en := c.recvEnabled(st, ch)
	c.nonblock(fr, st, key, en)
	st.pc = c.vc.Name("pc", And(st.pc, en))
	c.opCover(fr, st, key, st.pc)
	c.event(st, "recv", ch)
	ok := c.applyRecv(st, ch, TTrue)
	v := c.freshValue(et, "recv")
	c.assumeAllocatedSV(st, v, et)
	val := c.mergeSV(ok, v, c.zeroValue(et))
	c.ogAfter(fr, st, key, map[string]SV{"opOk": Sc{ok}})
	if x.CommaOk {
		return Tu{Elems: []SV{val, Sc{ok}}}
	}
	return val
}

func (c *FnCtx) selectOp(fr *Frame, st *State, x *ssa.Select) SV {
	key := c.opKeyOf(fr, x)
	c.ogBefore(fr, st, key)
	idx := c.vc.Fresh("sel", SInt)
	lo := IntLit(0)
	if !x.Blocking {
		lo = IntLit(-1)
	}
	c.vc.Assert(And(App(SBool, "<=", lo, idx), App(SBool, "<", idx, IntLit(int64(len(x.States))))))
	out := Tu{Elems: []SV{Sc{c.coerceInt(idx, types.Typ[types.Int])}, Sc{TFalse}}}
	var enabled []Term
	var chosenFacts []Term
	recvOk := TFalse
	var afterKeys []string
	for i, s := range x.States {
		ch := c.term(fr, st, s.Chan)
		c.envActs(st, ch)
		c.chanFacts(st, ch)
		chosen := Eq(idx, IntLit(int64(i)))
		ck := c.caseKeyOf(fr, x, i)
		afterKeys = append(afterKeys, ck)
		if s.Dir == types.SendOnly {
			en := c.sendEnabled(st, ch)
			c.nonblock(fr, st, ck, en)
			enabled = append(enabled, en)
			chosenFacts = append(chosenFacts, Implies(chosen, And(en, Not(c.chanField(st, "chan$closed", SBool, ch)))))
			c.applySend(st, ch, chosen)
		} else {
			en := c.recvEnabled(st, ch)
			enabled = append(enabled, en)
			chosenFacts = append(chosenFacts, Implies(chosen, en))
			ok := c.applyRecv(st, ch, chosen)
			recvOk = Ite(chosen, ok, recvOk)
			et := s.Chan.Type().Underlying().(*types.Chan).Elem()
			v := c.freshValue(et, fmt.Sprintf("selrecv%d", i))
			c.assumeAllocatedSV(st, v, et)
			out.Elems = append(out.Elems, c.mergeSV(ok, v, c.zeroValue(et)))
		}
	}
	if !x.Blocking {
		// default is taken only when no case is enabled
		chosenFacts = append(chosenFacts, Implies(Eq(idx, IntLit(-1)), Not(Or(enabled...))))
	}
	st.pc = c.vc.Name("pc", And(append([]Term{st.pc}, chosenFacts...)...))
	out.Elems[1] = Sc{c.vc.Name("selok", recvOk)}
	for i, ck := range afterKeys {
		c.opCover(fr, st, ck, And(st.pc, Eq(idx, IntLit(int64(i)))))
	}
	// ghost updates of the chosen case, then the guarantee
	for i, ck := range afterKeys {
		c.ogApplyAfters(fr, st, ck, Eq(idx, IntLit(int64(i))), map[string]SV{"opOk": Sc{recvOk}})
	}
	c.ogGuarantee(fr, st, key)
	c.selectIdx[x] = idx
	return out
}

// opCover: reachability cover "this blocking operation can complete" (every tier): if the model has no execution in which the send / receive / select case
// goes through, everything checked after it on that path holds vacuously.
func (c *FnCtx) opCover(fr *Frame, st *State, key string, pc Term) {
	if fr.depth != 0 || key == "" || c.inSpec > 0 {
		return
	}
	tmp := &State{pc: pc}
	cv := c.addObl("vacuity", "completes:"+key, nil, tmp, TFalse, nil)
	cv.Kind = "cover"
}

func (c *FnCtx) doClose(fr *Frame, st *State, ch Term, site ssa.Instruction) {
	key := c.opKeyOf(fr, site)
	c.ogBefore(fr, st, key)
	c.safety("closed", st, And(Not(Eq(ch, IntLit(0))), Not(c.chanField(st, "chan$closed", SBool, ch))))
	c.chanSet(st, "chan$closed", SBool, ch, TTrue)
	c.event(st, "close", ch)
	c.ogAfter(fr, st, key, nil)
}

func (c *FnCtx) event(st *State, what string, t Term) {
	c.events = append(c.events, what+" "+t.S)
}
