package main

import (
	"bufio"
	"regexp"
	"encoding/json"
	"flag"
	"fmt"
	"os"
	"path/filepath"
	"sort"
	"strconv"
	"strings"
	"time"
)

type KnownFinding struct {
	Kind       string // finding | fixed
	Property   string
	Obligation string
	Text       string
}

func loadKnownFindings(path string) []KnownFinding {
	f, err := os.Open(path)
	if err != nil {
		return nil
	}
	defer f.Close()
	var out []KnownFinding
	sc := bufio.NewScanner(f)
	for sc.Scan() {
		l := strings.TrimSpace(sc.Text())
		if l == "" || strings.HasPrefix(l, "#") {
			continue
		}
		kf := KnownFinding{}
		switch {
		case strings.HasPrefix(l, "finding:"):
			kf.Kind = "finding"
			l = strings.TrimSpace(strings.TrimPrefix(l, "finding:"))
		case strings.HasPrefix(l, "fixed:"):
			kf.Kind = "fixed"
			l = strings.TrimSpace(strings.TrimPrefix(l, "fixed:"))
		default:
			continue
		}
		for _, tok := range strings.Fields(l) {
			if strings.HasPrefix(tok, "property=") {
				kf.Property = strings.TrimPrefix(tok, "property=")
			}
			if strings.HasPrefix(tok, "obligation=") {
				kf.Obligation = strings.TrimPrefix(tok, "obligation=")
			}
		}
		kf.Text = l
		out = append(out, kf)
	}
	return out
}

// Ledger: property -> obligation group (base name) -> tier in which it is expected to be
// discharged ("quick" or "thorough") and the slowest instance time seen when locked.
type LedgerEntry struct {
	Tier string  `json:"tier"`
	Secs float64 `json:"secs"`
}
type Ledger map[string]map[string]LedgerEntry

func loadLedger(path string) Ledger {
	b, err := os.ReadFile(path)
	if err != nil {
		return nil
	}
	var l Ledger
	if json.Unmarshal(b, &l) != nil {
		return nil
	}
	return l
}

type manifestCheck struct {
	PropertyID   string `json:"property_id"`
	LevelClaimed struct {
		Category string `json:"category"`
	} `json:"level_claimed"`
}

func claimedLevel(prop string) string {
	b, err := os.ReadFile(filepath.Join(verifDir(), "MANIFEST.json"))
	if err != nil {
		return "other"
	}
	var m struct {
		Checks []manifestCheck `json:"checks"`
	}
	if json.Unmarshal(b, &m) != nil {
		return "other"
	}
	for _, c := range m.Checks {
		if c.PropertyID == prop && c.LevelClaimed.Category != "" {
			return c.LevelClaimed.Category
		}
	}
	return "other"
}

type CheckOutcome struct {
	Prop        string
	Results     []*OblResult
	FnResults   []*FnResult
	Errors      []string
	Violations  []string
	Known       []string
	Wall        float64
	Deferred    []string
}

// targetsFor lists the functions and lemmas carrying obligations of a property.
func (e *Engine) targetsFor(prop string) (funcs []string, lemmas []*LemmaDef) {
	for _, key := range e.cs.Order {
		ct := e.cs.Funcs[key]
		if ct.Trusted {
			continue
		}
		if ct.Opaque && !ct.Sweep {
			// opaque contracts take part only through their structural obligations
			if _, ok := ct.Attrs["deterministic"]; !ok || !hasProp(ct.Props, prop) {
				continue
			}
		}
		use := hasProp(ct.Props, prop) || hasProp(strings.Fields(strings.ReplaceAll(ct.Attrs["safety"], ",", " ")), prop) || strings.Contains(ct.Attrs["hooked"], "@"+prop+" ") || strings.Contains(ct.Attrs["own-var"], "@"+prop+" ") || strings.Contains(ct.Attrs["cancellable"], "@"+prop+" ")
		for _, cl := range ct.Ensures {
			if hasProp(cl.Props, prop) {
				use = true
			}
		}
		for _, ls := range ct.Loops {
			for _, cl := range ls.Invs {
				if hasProp(cl.Props, prop) {
					use = true
				}
			}
		}
		for _, cls := range ct.Asserts {
			for _, cl := range cls {
				if hasProp(cl.Props, prop) {
					use = true
				}
			}
		}
		if use {
			funcs = append(funcs, key)
		}
	}
	for _, l := range e.cs.Lemmas {
		if hasProp(l.Props, prop) {
			lemmas = append(lemmas, l)
		}
	}
	return
}

func runProperty(e *Engine, prop string, tier string, seed int) *CheckOutcome {
	t0 := time.Now()
	out := &CheckOutcome{Prop: prop}
	funcs, lemmas := e.targetsFor(prop)
	var obls []*Obligation
	var decided []*OblResult
	only := os.Getenv("GOVC_ONLY") // development aid: restrict to functions whose key contains this text
	for _, key := range funcs {
		if only != "" && !strings.Contains(key, only) {
			continue
		}
		r := e.VerifyFunc(key)
		out.FnResults = append(out.FnResults, r)
		if r.Err != "" {
			out.Errors = append(out.Errors, r.Err)
			continue
		}
		for _, o := range r.Obls {
			if hasProp(o.Props, prop) {
				obls = append(obls, o)
			}
		}
		for _, d := range r.Decided {
			if d.obl != nil && hasProp(d.obl.Props, prop) {
				decided = append(decided, d)
			}
		}
	}
	for _, l := range lemmas {
		r := e.VerifyLemma(l)
		out.FnResults = append(out.FnResults, r)
		if r.Err != "" {
			out.Errors = append(out.Errors, r.Err)
			continue
		}
		obls = append(obls, r.Obls...)
	}
	out.Errors = append(out.Errors, e.errors...)
	timeout := 40
	if tier == "thorough" {
		timeout = 600
	}
	if v := os.Getenv("GOVC_TIMEOUT"); v != "" {
		if n, err := strconv.Atoi(v); err == nil {
			timeout = n
		}
	}
	out.Results = append(solveAll(obls, timeout, seed, tier == "thorough", 5), decided...)
	out.Wall = time.Since(t0).Seconds()
	return out
}

func cmdCheck(args []string) int {
	fs := flag.NewFlagSet("check", flag.ExitOnError)
	tier := fs.String("tier", "quick", "quick|thorough")
	verbose := fs.Bool("v", false, "verbose")
	noEvidence := fs.Bool("no-evidence", false, "do not write the evidence file")
	var prop string
	if len(args) > 0 && !strings.HasPrefix(args[0], "-") {
		prop = args[0]
		args = args[1:]
	}
	fs.Parse(args)
	if prop == "" {
		if fs.NArg() < 1 {
			usage()
		}
		prop = fs.Arg(0)
	}
	tierSet := false
	fs.Visit(func(f *flag.Flag) {
		if f.Name == "tier" {
			tierSet = true
		}
	})
	if t := os.Getenv("VERIF_TIER"); (t == "quick" || t == "thorough") && !tierSet {
		// the environment chooses the tier only when the command line does not
		*tier = t
	}
	govcTier = *tier
	seed := 0
	if s := os.Getenv("VERIF_SEED"); s != "" {
		if n, err := strconv.Atoi(s); err == nil {
			seed = n
		}
	}
	t0 := time.Now()
	e, err := LoadEngine(repoDir(), nil, filepath.Join(verifDir(), "contracts", "lib"))
	if err != nil {
		fmt.Fprintln(os.Stderr, "govc: cannot load /repo:", err)
		return 2
	}
	out := runProperty(e, prop, *tier, seed)
	return finishCheck(e, out, *tier, seed, *verbose, !*noEvidence, time.Since(t0).Seconds())
}

type Verdict struct {
	NProve, NDischarged int
	Violations          []*OblResult
	KnownHits           []string
	UndecidedNew        []string
	Deferred            []string
	Missing             []string
	EngineErr           bool
	UnreachableReturns  []string
	UnreachableBlocks   []string
}

// judge applies the ledger and the known-findings file to the raw solver results.
func judge(out *CheckOutcome, tier string, verbose bool) *Verdict {
	v := &Verdict{}
	prop := out.Prop
	known := loadKnownFindings(filepath.Join(verifDir(), "KNOWN_FINDINGS.txt"))
	ledger := loadLedger(filepath.Join(verifDir(), "obligations.lock"))
	isKnown := func(name string) *KnownFinding {
		for i := range known {
			k := &known[i]
			if k.Kind == "finding" && k.Property == prop && k.Obligation == baseName(name) {
				return k
			}
		}
		return nil
	}
	expected := map[string]bool{}
	thoroughOnly := map[string]bool{}
	haveLedger := false
	if ledger != nil {
		if l, ok := ledger[prop]; ok {
			haveLedger = true
			for n, ent := range l {
				expected[n] = true
				if ent.Tier == "thorough" {
					thoroughOnly[n] = true
				}
			}
		}
	}
	sort.SliceStable(out.Results, func(i, j int) bool { return out.Results[i].Name < out.Results[j].Name })
	seen := map[string]bool{}
	v.EngineErr = len(out.Errors) > 0
	for _, r := range out.Results {
		seen[baseName(r.Name)] = true
		if verbose {
			fmt.Printf("  %-14s %-70s %s %.2fs\n", r.Status, r.Name, r.Solve.Winner, r.Solve.Secs)
		}
		if r.Kind == "cover" {
			if r.Status == "cover-failed" && strings.Contains(r.Name, "vacuity:each-return") {
				v.UnreachableReturns = append(v.UnreachableReturns, r.Name)
				continue
			}
			if r.Status == "cover-failed" && (strings.Contains(r.Name, "vacuity:block:") || strings.Contains(r.Name, "vacuity:completes:") || strings.Contains(r.Name, "vacuity:returns:")) {
				v.UnreachableBlocks = append(v.UnreachableBlocks, r.Name+" ("+r.Where+")")
				continue
			}
			if r.Status == "cover-failed" {
				if strings.HasSuffix(r.Name, "requires-sat") {
					out.Errors = append(out.Errors, "vacuous precondition: "+r.Name)
					v.EngineErr = true
				} else {
					v.Violations = append(v.Violations, r)
				}
			}
			continue
		}
		v.NProve++
		switch r.Status {
		case "discharged":
			v.NDischarged++
		case "refuted", "undecided", "contradiction":
			if k := isKnown(r.Name); k != nil {
				line := fmt.Sprintf("KNOWN-FINDING: %s", k.Text)
				dup := false
				for _, l := range v.KnownHits {
					if l == line {
						dup = true
					}
				}
				if !dup {
					v.KnownHits = append(v.KnownHits, line)
				}
				continue
			}
			if r.Status == "undecided" && haveLedger && !expected[baseName(r.Name)] && r.Class != "safe:extnil" {
				// (a new `extnil` site is different: whether the value of a (value, error) pair is
				// used only after the error was tested is decided by the branch conditions of the
				// path alone; a site the solvers cannot discharge is reported, like a new site of
				// a group that is already in the ledger)
				v.UndecidedNew = append(v.UndecidedNew, r.Name)
				continue
			}
			if r.Status == "undecided" && tier == "quick" && thoroughOnly[baseName(r.Name)] {
				// slow obligation: proved only by the thorough tier; the quick tier searched for
				// a refutation within its budget and found none
				v.Deferred = append(v.Deferred, r.Name)
				v.NProve--
				continue
			}
			v.Violations = append(v.Violations, r)
		}
	}
	if haveLedger {
		for n := range expected {
			if !seen[n] {
				v.Missing = append(v.Missing, n)
			}
		}
		sort.Strings(v.Missing)
	}
	// A contract that no longer applies to the code (its target is gone, a field it names no
	// longer exists, a clause no longer evaluates) means obligations that were discharged on
	// the unchanged tree can no longer be established: that is reported, not swallowed.
	if len(out.Errors) > 0 && haveLedger {
		r := &OblResult{Name: prop + "/contract-applies", Class: "contract", Kind: "prove", Status: "undecided",
			Clause: "every contract of this property still applies to the code (targets exist, clauses evaluate)",
			Solve: SolveResult{Status: "unknown", Winner: "govc", Answers: []SolverAnswer{{Solver: "govc", Status: "error", Raw: strings.Join(out.Errors, " | ")}}}}
		v.Violations = append(v.Violations, r)
	}
	return v
}

func finishCheck(e *Engine, out *CheckOutcome, tier string, seed int, verbose bool, writeEvidence bool, wall float64) int {
	prop := out.Prop
	vd := judge(out, tier, verbose)
	nProve, nDischarged := vd.NProve, vd.NDischarged
	violations, knownHits, undecidedNew, deferred, missing := vd.Violations, vd.KnownHits, vd.UndecidedNew, vd.Deferred, vd.Missing
	engineErr := vd.EngineErr
	// replay refutations
	replayDir := filepath.Join(verifDir(), "replays", prop)
	os.RemoveAll(replayDir)
	var vioLines []string
	for _, v := range violations {
		path, confirmed := writeReplay(e, replayDir, prop, v)
		line := fmt.Sprintf("VIOLATION property=%s replay=%s obligation=%s status=%s", prop, path, v.Name, v.Status)
		if !confirmed {
			line += " no-failing-input-found"
		}
		vioLines = append(vioLines, line)
	}
	for _, l := range knownHits {
		fmt.Println(l)
	}
	for _, l := range vioLines {
		fmt.Println(l)
	}
	for _, er := range out.Errors {
		fmt.Fprintln(os.Stderr, "govc: error:", er)
	}
	for _, m := range missing {
		fmt.Fprintln(os.Stderr, "govc: note: expected obligation no longer generated:", m)
	}
	for _, u := range vd.UnreachableReturns {
		fmt.Fprintln(os.Stderr, "govc: note: return path unreachable under the contract's assumptions:", u)
	}
	for _, u := range vd.UnreachableBlocks {
		fmt.Fprintln(os.Stderr, "govc: note: basic block unreachable in the model (clauses checked there hold vacuously):", u)
	}
	for _, d := range deferred {
		fmt.Fprintln(os.Stderr, "govc: note: slow obligation left to the thorough tier (no refutation found in the quick budget):", d)
	}
	out.Deferred = deferred
	for _, u := range undecidedNew {
		fmt.Fprintln(os.Stderr, "govc: note: new obligation undecided (not counted):", u)
	}
	fmt.Printf("govc: property %s tier %s: %d obligations, %d discharged, %d violations, %d known findings, %.1fs\n", prop, tier, nProve, nDischarged, len(vioLines), len(knownHits), wall)
	if writeEvidence {
		writeEvidenceFile(e, out, tier, seed, nProve, nDischarged, len(vioLines), knownHits, missing, undecidedNew, wall)
	}
	if len(vioLines) > 0 {
		return 1
	}
	if engineErr {
		return 2
	}
	if nProve == 0 {
		fmt.Fprintln(os.Stderr, "govc: error: no obligations generated for", prop)
		return 2
	}
	return 0
}

func writeEvidenceFile(e *Engine, out *CheckOutcome, tier string, seed int, nProve, nDischarged, nViol int, known, missing, undecided []string, wall float64) {
	prop := out.Prop
	level := claimedLevel(prop)
	type oblJSON struct {
		Name     string  `json:"name"`
		Status   string  `json:"status"`
		Backend  string  `json:"backend"`
		Secs     float64 `json:"secs"`
		Clause   string  `json:"clause,omitempty"`
		Sentence string  `json:"property_sentence,omitempty"`
	}
	var obls []oblJSON
	var samples []interface{}
	backendTime := map[string]float64{}
	backendCount := map[string]int{}
	var solverSecs float64
	for _, r := range out.Results {
		obls = append(obls, oblJSON{r.Name, r.Status, r.Solve.Winner, r.Solve.Secs, r.Clause, r.Quote})
		backendTime[r.Solve.Winner] += r.Solve.Secs
		backendCount[r.Solve.Winner]++
		solverSecs += r.Solve.Secs
		if len(samples) < 6 && r.Kind == "prove" && r.Clause != "" {
			samples = append(samples, map[string]string{"obligation": r.Name, "clause": r.Clause, "status": r.Status, "backend": r.Solve.Winner})
		}
	}
	if len(samples) == 0 {
		for _, r := range out.Results {
			if len(samples) < 3 {
				samples = append(samples, map[string]string{"obligation": r.Name, "status": r.Status})
			}
		}
	}
	var funcs []string
	trusted := map[string]bool{}
	assumptions := map[string]bool{}
	abstracted := map[string]bool{}
	for _, fr := range out.FnResults {
		funcs = append(funcs, fr.Key)
		for _, t := range fr.Trusted {
			trusted[t] = true
		}
		for _, a := range fr.Assumptions {
			assumptions[a] = true
		}
		for _, a := range fr.Abstracted {
			abstracted[fr.Key+": "+a] = true
		}
	}
	tb := []string{
		"T1: golang.org/x/tools go/packages + go/ssa (v0.29.0) build a faithful SSA of /repo's working tree",
		"T2: SMT solvers z3 4.8.12, z3 5.1.0, cvc5 1.0 are sound for `unsat`",
		"T3: govc's encoding of SSA instructions into SMT (DESIGN.md §4), guarded by the must-fail corpus",
		"A-math: machine integers are mathematical integers unless the function is in bv mode or `checks ovf` is on",
	}
	tb = append(tb, sortedKeys(trusted)...)
	info := propInfo[prop]
	cov := map[string]interface{}{
		"obligations":            nProve,
		"discharged":             nDischarged,
		"checker_cmd":            fmt.Sprintf("cd /verif && bin/govc check %s --tier %s", prop, tier),
		"trusted_base":           tb,
		"explanation":            info.Explanation,
		"samples":                samples,
		"functions_under_contract": funcs,
		"obligation_results":     obls,
		"solver_seconds_total":   solverSecs,
		"solver_seconds_by_backend": backendTime,
		"obligations_by_backend": backendCount,
		"abstracted_instructions": sortedKeys(abstracted),
		"known_findings_reported": known,
		"expected_obligations_missing": missing,
		"new_obligations_undecided":    undecided,
		"deferred_to_thorough_tier":    out.Deferred,
		"bounded_standins":       info.Bounded,
		"not_decided_by_this_check": info.Undecided,
		"contract_files":         e.cs.Files,
		"engine_errors":          out.Errors,
	}
	ev := map[string]interface{}{
		"property_id": prop,
		"tier":        tier,
		"seed":        seed,
		"level":       level,
		"coverage":    cov,
		"assumptions": append(sortedKeys(assumptions), info.Assumptions...),
		"wall_s":      wall,
		"violations":  nViol,
	}
	b, _ := json.MarshalIndent(ev, "", " ")
	dir := filepath.Join(verifDir(), "evidence")
	os.MkdirAll(dir, 0o755)
	os.WriteFile(filepath.Join(dir, prop+".json"), b, 0o644)
}

var instRe = regexp.MustCompile(`#[0-9]+$`)

// baseName strips the instance ordinal: the ledger and the known-findings file name
// obligation groups, every instance of which must be discharged.
func baseName(n string) string { return instRe.ReplaceAllString(n, "") }

type PropInfo struct {
	Explanation string
	Assumptions []string
	Undecided   []string
	Bounded     []string
}

var propInfo = map[string]PropInfo{}

func cmdLock(args []string) int {
	e, err := LoadEngine(repoDir(), nil, filepath.Join(verifDir(), "contracts", "lib"))
	if err != nil {
		fmt.Fprintln(os.Stderr, err)
		return 2
	}
	props := map[string]bool{}
	for _, ct := range e.cs.Funcs {
		for _, p := range ct.Props {
			props[p] = true
		}
		for _, cl := range ct.Ensures {
			for _, p := range cl.Props {
				props[p] = true
			}
		}
	}
	for _, l := range e.cs.Lemmas {
		for _, p := range l.Props {
			props[p] = true
		}
	}
	only := map[string]bool{}
	for _, a := range args {
		only[a] = true
	}
	ledger := loadLedger(filepath.Join(verifDir(), "obligations.lock"))
	if ledger == nil {
		ledger = Ledger{}
	}
	known := loadKnownFindings(filepath.Join(verifDir(), "KNOWN_FINDINGS.txt"))
	for _, p := range sortedKeys(props) {
		if len(only) > 0 && !only[p] {
			continue
		}
		e.errors = nil
		os.Setenv("GOVC_TIMEOUT", "300")
		out := runProperty(e, p, "quick", 0)
		os.Unsetenv("GOVC_TIMEOUT")
		ent := map[string]LedgerEntry{}
		bad := map[string]bool{}
		for _, r := range out.Results {
			if r.Kind == "prove" && r.Status != "discharged" {
				bad[baseName(r.Name)] = true
				isK := false
				for _, k := range known {
					if k.Kind == "finding" && k.Property == p && k.Obligation == baseName(r.Name) {
						isK = true
					}
				}
				if !isK {
					fmt.Fprintf(os.Stderr, "lock: %s not discharged (%s)\n", r.Name, r.Status)
				}
			}
		}
		for _, r := range out.Results {
			if r.Kind != "prove" || bad[baseName(r.Name)] {
				continue
			}
			b := baseName(r.Name)
			cur, ok := ent[b]
			if !ok {
				cur = LedgerEntry{Tier: "quick"}
			}
			if r.Solve.Secs > cur.Secs {
				cur.Secs = float64(int(r.Solve.Secs*100)) / 100
			}
			if r.Solve.Secs > 12 {
				cur.Tier = "thorough"
				fmt.Fprintf(os.Stderr, "lock: slow obligation %s %.1fs -> thorough tier only\n", r.Name, r.Solve.Secs)
			}
			ent[b] = cur
		}
		ledger[p] = ent
		fmt.Printf("lock: %s: %d obligation groups recorded\n", p, len(ent))
	}
	b, _ := json.MarshalIndent(ledger, "", " ")
	os.WriteFile(filepath.Join(verifDir(), "obligations.lock"), b, 0o644)
	return 0
}

func cmdSelftest(args []string) int {
	return runSelftest(args)
}
