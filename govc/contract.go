package main

import (
	"bufio"
	"fmt"
	"go/ast"
	"go/parser"
	"os"
	"path/filepath"
	"regexp"
	"sort"
	"strings"
)

// Clause is one requires/ensures/invariant clause.
type Clause struct {
	Label string
	Props []string // property ids this clause belongs to (nil = function default)
	Text  string   // as written
	Expr  ast.Expr
	File  string
	Line  int
	Quote string // property sentence transcribed (optional, from trailing // comment)
}

type LoopSpec struct {
	Key      string // induction variable / range operand name, optionally "#n"
	Invs     []Clause
	Variant  *Clause
	ModAll   bool
	Used     bool
	Lets     []LetDef
	Mods     []Clause // extra locations havocked at the loop head (interference by other threads)
}

type FuncContract struct {
	Pkg      string // import path
	Name     string // e.g. "(*tokenBucket).adjustOnFailure", "checkThreshold", "archive$1"
	Modes    map[string]bool
	Props    []string
	Requires []Clause
	Ensures  []Clause
	Modifies []Clause // each Expr is a location expression; Text "*" means everything
	HasMods  bool
	Loops    []*LoopSpec
	Lets     []LetDef
	Inline   bool
	Trusted  bool // contract of a dependency (assumed, not verified)
	Opaque   bool // module function assumed without proof (listed as assumption)
	Sweep    bool // safety-only verification of the body (see `sweep`)
	Checks   map[string]bool
	Stables  []Clause
	Locals   []LocalDef
	Afters   map[string][]ogAssign
	Asserts  map[string][]Clause // call-site assertions: checked immediately before the operation with that key
	Replay   string // replay template name
	File     string
	Line     int
	Attrs    map[string]string
}

type LocalDef struct {
	Name string
	Type string
	Init ast.Expr
}

type LetDef struct {
	Name string
	Expr ast.Expr
	Text string
}

type Param struct {
	Name string
	Type string // Go type expression text or spec type: real, mathint
}

type PredDef struct {
	Pkg    string
	Name   string
	Params []Param
	Result string    // "" for pred (bool)
	Body   ast.Expr  // nil = uninterpreted
	Text   string
}

type AxiomDef struct {
	Pkg   string
	Label string
	Expr  ast.Expr
	Text  string
	Vars  []Param // universally quantified variables
}

type GhostDef struct {
	Pkg  string
	Name string
	Type string
}

type LemmaDef struct {
	Pkg      string
	Name     string
	Props    []string
	Vars     []Param
	Requires []Clause
	Ensures  []Clause
	Modes    map[string]bool
	File     string
	Line     int
}

type ContractSet struct {
	Funcs  map[string]*FuncContract // key pkg + "::" + name
	Preds  map[string]*PredDef      // key pkg + "::" + name
	Axioms []*AxiomDef
	Ghosts map[string]*GhostDef
	Lemmas []*LemmaDef
	Files  []string
	Order  []string
	SweepAll []SweepAllDef
}

type SweepAllDef struct {
	Pkg   string
	Props []string
	Kinds []string
	File  string
	Line  int
}

func NewContractSet() *ContractSet {
	return &ContractSet{Funcs: map[string]*FuncContract{}, Preds: map[string]*PredDef{}, Ghosts: map[string]*GhostDef{}}
}

var labelRe = regexp.MustCompile(`^\[([A-Za-z0-9_:.\-]+)\]\s*`)
var propTagRe = regexp.MustCompile(`^@(C[0-9]+(?:,C[0-9]+)*)\s+`)

// convImplies rewrites `A ==> B` (lowest precedence, right associative, within one
// bracket group) into implies(A, B) so that go/parser accepts the clause. It also rewrites
// `A <==> B` into iff(A, B).
func convImplies(s string) string {
	// first recurse into bracket groups
	var out strings.Builder
	depth := 0
	start := -1
	inStr := byte(0)
	for i := 0; i < len(s); i++ {
		c := s[i]
		if inStr != 0 {
			if c == '\\' {
				if depth == 0 {
					out.WriteByte(c)
					if i+1 < len(s) {
						out.WriteByte(s[i+1])
					}
				}
				i++
				continue
			}
			if c == inStr {
				inStr = 0
			}
			if depth == 0 {
				out.WriteByte(c)
			}
			continue
		}
		if c == '"' || c == '`' || c == '\'' {
			inStr = c
			if depth == 0 {
				out.WriteByte(c)
			}
			continue
		}
		if c == '(' || c == '[' || c == '{' {
			if depth == 0 {
				out.WriteByte(c)
				start = i + 1
			}
			depth++
			continue
		}
		if c == ')' || c == ']' || c == '}' {
			depth--
			if depth == 0 {
				inner := s[start:i]
				// split on top-level commas and convert each
				parts := splitTop(inner, ',')
				for k, p := range parts {
					if k > 0 {
						out.WriteByte(',')
					}
					out.WriteString(convImplies(p))
				}
				out.WriteByte(c)
			}
			continue
		}
		if depth == 0 {
			out.WriteByte(c)
		}
	}
	t := out.String()
	// now top-level <==> and ==>
	if i := indexTop(t, "<==>"); i >= 0 {
		return "iff(" + convImplies(t[:i]) + ", " + convImplies(t[i+4:]) + ")"
	}
	if i := indexTop(t, "==>"); i >= 0 {
		return "implies(" + convImplies(t[:i]) + ", " + convImplies(t[i+3:]) + ")"
	}
	return t
}

func splitTop(s string, sep byte) []string {
	var parts []string
	depth := 0
	last := 0
	inStr := byte(0)
	for i := 0; i < len(s); i++ {
		c := s[i]
		if inStr != 0 {
			if c == '\\' {
				i++
			} else if c == inStr {
				inStr = 0
			}
			continue
		}
		switch c {
		case '"', '`', '\'':
			inStr = c
		case '(', '[', '{':
			depth++
		case ')', ']', '}':
			depth--
		default:
			if c == sep && depth == 0 {
				parts = append(parts, s[last:i])
				last = i + 1
			}
		}
	}
	parts = append(parts, s[last:])
	return parts
}

func indexTop(s, pat string) int {
	depth := 0
	inStr := byte(0)
	for i := 0; i < len(s); i++ {
		c := s[i]
		if inStr != 0 {
			if c == '\\' {
				i++
			} else if c == inStr {
				inStr = 0
			}
			continue
		}
		switch c {
		case '"', '`', '\'':
			inStr = c
		case '(', '[', '{':
			depth++
		case ')', ']', '}':
			depth--
		default:
			if depth == 0 && strings.HasPrefix(s[i:], pat) {
				// "<==>" contains "==>": when looking for "==>" skip if preceded by '<'
				if pat == "==>" && i > 0 && s[i-1] == '<' {
					continue
				}
				return i
			}
		}
	}
	return -1
}

func parseSpecExpr(text string) (ast.Expr, error) {
	t := convImplies(text)
	e, err := parser.ParseExpr(t)
	if err != nil {
		return nil, fmt.Errorf("spec expression %q: %v", text, err)
	}
	return e, nil
}

func parseClause(rest, file string, line int, defProps []string) (Clause, error) {
	c := Clause{File: file, Line: line}
	rest = strings.TrimSpace(rest)
	if m := labelRe.FindStringSubmatch(rest); m != nil {
		c.Label = m[1]
		rest = rest[len(m[0]):]
	}
	if m := propTagRe.FindStringSubmatch(rest); m != nil {
		c.Props = strings.Split(m[1], ",")
		rest = rest[len(m[0]):]
	}
	// trailing comment = quote of the property sentence
	if i := indexTop(rest, " // "); i >= 0 {
		c.Quote = strings.TrimSpace(rest[i+4:])
		rest = strings.TrimSpace(rest[:i])
	}
	c.Text = rest
	e, err := parseSpecExpr(rest)
	if err != nil {
		return c, fmt.Errorf("%s:%d: %v", file, line, err)
	}
	c.Expr = e
	return c, nil
}

func parseParams(s string) ([]Param, error) {
	s = strings.TrimSpace(s)
	if s == "" {
		return nil, nil
	}
	var ps []Param
	for _, p := range splitTop(s, ',') {
		p = strings.TrimSpace(p)
		i := strings.IndexAny(p, " \t")
		if i < 0 {
			return nil, fmt.Errorf("parameter %q needs a type", p)
		}
		ps = append(ps, Param{Name: p[:i], Type: strings.TrimSpace(p[i+1:])})
	}
	return ps, nil
}

var predRe = regexp.MustCompile(`^(pred|pure)\s+([A-Za-z_][A-Za-z0-9_]*)\s*\(([^)]*)\)\s*([^=]*?)\s*(?:=\s*(.*))?$`)
var axiomRe = regexp.MustCompile(`^axiom\s+(?:\[([A-Za-z0-9_:.\-]+)\]\s*)?(?:forall\s*\(([^)]*)\)\s*::\s*)?(.*)$`)
var lemmaRe = regexp.MustCompile(`^lemma\s+([A-Za-z0-9_:.\-]+)\s*(?:\(([^)]*)\))?\s*$`)

// ParseContractFile reads //@ lines. pkg is the import path the file belongs to ("" for
// lib spec files, which carry `package <importpath>` directives as `//@ package path`).
func (cs *ContractSet) ParseContractFile(path, pkg string, trusted bool) error {
	f, err := os.Open(path)
	if err != nil {
		return err
	}
	defer f.Close()
	cs.Files = append(cs.Files, path)
	sc := bufio.NewScanner(f)
	sc.Buffer(make([]byte, 1<<20), 1<<20)
	var lines []struct {
		text string
		n    int
	}
	n := 0
	for sc.Scan() {
		n++
		l := sc.Text()
		t := strings.TrimSpace(l)
		if !strings.HasPrefix(t, "//@") {
			continue
		}
		body := strings.TrimRight(t[3:], " \t")
		// continuation: previous line ended with backslash
		if len(lines) > 0 && strings.HasSuffix(lines[len(lines)-1].text, "\\") {
			prev := &lines[len(lines)-1]
			prev.text = strings.TrimSuffix(prev.text, "\\") + " " + strings.TrimSpace(body)
			continue
		}
		lines = append(lines, struct {
			text string
			n    int
		}{body, n})
	}
	var cur *FuncContract
	var curLemma *LemmaDef
	for _, ln := range lines {
		t := strings.TrimSpace(ln.text)
		if t == "" || strings.HasPrefix(t, "#") || strings.HasPrefix(t, "--") {
			continue
		}
		kw := t
		rest := ""
		if i := strings.IndexAny(t, " \t"); i >= 0 {
			kw, rest = t[:i], strings.TrimSpace(t[i+1:])
		}
		fail := func(err error) error { return fmt.Errorf("%s:%d: %v", path, ln.n, err) }
		switch kw {
		case "package":
			pkg = rest
			cur, curLemma = nil, nil
		case "sweepall":
			// `sweepall C10 idx slice div assert`: every function of this package that has no
			// contract of its own is swept for these implicit panics (bare sweeps, see `sweep`);
			// functions added later are covered without touching the contract files
			fs := strings.Fields(rest)
			if len(fs) < 2 {
				return fail(fmt.Errorf("sweepall needs a property and at least one check kind"))
			}
			cs.SweepAll = append(cs.SweepAll, SweepAllDef{Pkg: pkg, Props: strings.Split(fs[0], ","), Kinds: fs[1:], File: path, Line: ln.n})
			cur, curLemma = nil, nil
		case "func":
			name := rest
			cur = &FuncContract{Pkg: pkg, Name: name, Modes: map[string]bool{}, Checks: map[string]bool{}, Trusted: trusted, File: path, Line: ln.n, Attrs: map[string]string{}}
			curLemma = nil
			key := pkg + "::" + name
			if _, dup := cs.Funcs[key]; dup {
				return fail(fmt.Errorf("duplicate contract for %s", key))
			}
			cs.Funcs[key] = cur
			cs.Order = append(cs.Order, key)
		case "lemma":
			m := lemmaRe.FindStringSubmatch(t)
			if m == nil {
				return fail(fmt.Errorf("bad lemma header"))
			}
			ps, err := parseParams(m[2])
			if err != nil {
				return fail(err)
			}
			curLemma = &LemmaDef{Pkg: pkg, Name: m[1], Vars: ps, Modes: map[string]bool{}, File: path, Line: ln.n}
			cur = nil
			cs.Lemmas = append(cs.Lemmas, curLemma)
		case "pred", "pure":
			m := predRe.FindStringSubmatch(t)
			if m == nil {
				return fail(fmt.Errorf("bad pred/pure declaration: %s", t))
			}
			ps, err := parseParams(m[3])
			if err != nil {
				return fail(err)
			}
			pd := &PredDef{Pkg: pkg, Name: m[2], Params: ps, Result: strings.TrimSpace(m[4]), Text: t}
			if m[1] == "pred" {
				pd.Result = ""
			}
			if strings.TrimSpace(m[5]) != "" {
				e, err := parseSpecExpr(m[5])
				if err != nil {
					return fail(err)
				}
				pd.Body = e
			}
			cs.Preds[pkg+"::"+pd.Name] = pd
		case "axiom":
			m := axiomRe.FindStringSubmatch(t)
			if m == nil {
				return fail(fmt.Errorf("bad axiom"))
			}
			ps, err := parseParams(m[2])
			if err != nil {
				return fail(err)
			}
			e, err := parseSpecExpr(m[3])
			if err != nil {
				return fail(err)
			}
			cs.Axioms = append(cs.Axioms, &AxiomDef{Pkg: pkg, Label: m[1], Expr: e, Text: m[3], Vars: ps})
		case "ghost":
			fs := strings.Fields(rest)
			if len(fs) != 3 || fs[0] != "var" {
				return fail(fmt.Errorf("ghost var NAME TYPE"))
			}
			cs.Ghosts[pkg+"::"+fs[1]] = &GhostDef{Pkg: pkg, Name: fs[1], Type: fs[2]}
		default:
			if cur == nil && curLemma == nil {
				return fail(fmt.Errorf("clause %q outside func/lemma", kw))
			}
			if curLemma != nil {
				switch kw {
				case "property":
					curLemma.Props = strings.FieldsFunc(rest, func(r rune) bool { return r == ',' || r == ' ' })
				case "mode":
					for _, m := range strings.FieldsFunc(rest, func(r rune) bool { return r == ',' || r == ' ' }) {
						curLemma.Modes[m] = true
					}
				case "requires", "ensures":
					c, err := parseClause(rest, path, ln.n, nil)
					if err != nil {
						return err
					}
					if kw == "requires" {
						curLemma.Requires = append(curLemma.Requires, c)
					} else {
						curLemma.Ensures = append(curLemma.Ensures, c)
					}
				default:
					return fail(fmt.Errorf("unknown lemma clause %q", kw))
				}
				continue
			}
			switch kw {
			case "mode":
				for _, m := range strings.FieldsFunc(rest, func(r rune) bool { return r == ',' || r == ' ' }) {
					cur.Modes[m] = true
				}
			case "checks":
				for _, m := range strings.FieldsFunc(rest, func(r rune) bool { return r == ',' || r == ' ' }) {
					cur.Checks[m] = true
				}
			case "sweep":
				// `sweep idx slice div`: safety-only verification of the body (implicit panics of
				// the listed kinds become obligations); with `opaque` the rest of the contract
				// stays assumed and no frame/post obligations are generated
				cur.Sweep = true
				for _, m := range strings.FieldsFunc(rest, func(r rune) bool { return r == ',' || r == ' ' }) {
					cur.Checks[m] = true
				}
			case "property":
				cur.Props = strings.FieldsFunc(rest, func(r rune) bool { return r == ',' || r == ' ' })
			case "concurrent":
				cur.Attrs["concurrent"] = rest
			case "nonblock":
				cur.Attrs["nonblock"] += " " + rest
			case "stable":
				c, err := parseClause(rest, path, ln.n, cur.Props)
				if err != nil {
					return err
				}
				cur.Stables = append(cur.Stables, c)
			case "local":
				// local NAME TYPE [= INIT]
				fs := strings.Fields(rest)
				if len(fs) < 2 {
					return fail(fmt.Errorf("local NAME TYPE [= INIT]"))
				}
				ld := LocalDef{Name: fs[0], Type: fs[1]}
				// the type may contain spaces (chan struct{}): everything up to the `=`
				if tt := strings.TrimSpace(strings.TrimPrefix(strings.TrimSpace(rest), fs[0])); tt != "" {
					if i := strings.Index(tt, "="); i >= 0 {
						tt = strings.TrimSpace(tt[:i])
					}
					if tt != "" {
						ld.Type = tt
					}
				}
				if i := strings.Index(rest, "="); i >= 0 {
					e, err := parseSpecExpr(rest[i+1:])
					if err != nil {
						return fail(err)
					}
					ld.Init = e
				}
				cur.Locals = append(cur.Locals, ld)
			case "assert":
				// assert OPKEY: [label] expr
				i := strings.Index(rest, ":")
				if i < 0 {
					return fail(fmt.Errorf("assert OPKEY: [label] expr"))
				}
				key := strings.TrimSpace(rest[:i])
				c, err := parseClause(rest[i+1:], path, ln.n, cur.Props)
				if err != nil {
					return err
				}
				if cur.Asserts == nil {
					cur.Asserts = map[string][]Clause{}
				}
				cur.Asserts[key] = append(cur.Asserts[key], c)
			case "after":
				// after OPKEY: a = e1; b = e2
				i := strings.Index(rest, ":")
				if i < 0 {
					return fail(fmt.Errorf("after OPKEY: x = expr; y = expr"))
				}
				key := strings.TrimSpace(rest[:i])
				if cur.Afters == nil {
					cur.Afters = map[string][]ogAssign{}
				}
				for _, as := range splitTop(rest[i+1:], ';') {
					as = strings.TrimSpace(as)
					if as == "" {
						continue
					}
					j := strings.Index(as, "=")
					if j < 0 {
						return fail(fmt.Errorf("after: assignment expected: %s", as))
					}
					e, err := parseSpecExpr(as[j+1:])
					if err != nil {
						return fail(err)
					}
					cur.Afters[key] = append(cur.Afters[key], ogAssign{Name: strings.TrimSpace(as[:j]), Expr: e, Text: as[j+1:]})
				}
			case "inline":
				cur.Inline = true
			case "opaque":
				cur.Opaque = true
			case "trusted":
				cur.Trusted = true
			case "replay":
				cur.Replay = rest
			case "attr":
				fs := strings.SplitN(rest, " ", 2)
				if len(fs) == 2 {
					// a repeated list attribute accumulates (`attr cancellable @C03 a` + `attr cancellable @C14 b`)
					if old, ok := cur.Attrs[fs[0]]; ok && old != "true" {
						cur.Attrs[fs[0]] = old + " " + strings.TrimSpace(fs[1])
					} else {
						cur.Attrs[fs[0]] = strings.TrimSpace(fs[1])
					}
				} else {
					cur.Attrs[fs[0]] = "true"
				}
			case "let":
				i := strings.Index(rest, "=")
				if i < 0 {
					return fail(fmt.Errorf("let NAME = EXPR"))
				}
				e, err := parseSpecExpr(rest[i+1:])
				if err != nil {
					return fail(err)
				}
				cur.Lets = append(cur.Lets, LetDef{Name: strings.TrimSpace(rest[:i]), Expr: e, Text: rest})
			case "requires", "ensures":
				c, err := parseClause(rest, path, ln.n, cur.Props)
				if err != nil {
					return err
				}
				if kw == "requires" {
					cur.Requires = append(cur.Requires, c)
				} else {
					cur.Ensures = append(cur.Ensures, c)
				}
			case "modifies":
				cur.HasMods = true
				if rest == "" || rest == "nothing" {
					continue
				}
				for _, p := range splitTop(rest, ',') {
					p = strings.TrimSpace(p)
					if p == "*" || strings.HasPrefix(p, "*!") || p == "atomic(*)" || strings.HasSuffix(p, ".*") || strings.Contains(p, "::") {
						cur.Modifies = append(cur.Modifies, Clause{Text: p, File: path, Line: ln.n})
						continue
					}
					c, err := parseClause(p, path, ln.n, nil)
					if err != nil {
						return err
					}
					cur.Modifies = append(cur.Modifies, c)
				}
			case "loop":
				// loop <key> invariant|variant|modifies ...
				fs := strings.Fields(rest)
				if len(fs) < 2 {
					return fail(fmt.Errorf("loop KEY invariant EXPR"))
				}
				key := fs[0]
				idx := strings.Index(rest, fs[1])
				what := fs[1]
				body := strings.TrimSpace(rest[idx+len(what):])
				var ls *LoopSpec
				for _, l := range cur.Loops {
					if l.Key == key {
						ls = l
					}
				}
				if ls == nil {
					ls = &LoopSpec{Key: key}
					cur.Loops = append(cur.Loops, ls)
				}
				switch what {
				case "invariant":
					c, err := parseClause(body, path, ln.n, nil)
					if err != nil {
						return err
					}
					ls.Invs = append(ls.Invs, c)
				case "modifies":
					for _, p := range splitTop(body, ',') {
						p = strings.TrimSpace(p)
						if p == "*" || strings.HasSuffix(p, ".*") || strings.Contains(p, "::") {
							ls.Mods = append(ls.Mods, Clause{Text: p, File: path, Line: ln.n})
							continue
						}
						c, err := parseClause(p, path, ln.n, nil)
						if err != nil {
							return err
						}
						ls.Mods = append(ls.Mods, c)
					}
				case "let":
					i := strings.Index(body, "=")
					if i < 0 {
						return fail(fmt.Errorf("loop KEY let NAME = EXPR"))
					}
					e, err := parseSpecExpr(body[i+1:])
					if err != nil {
						return fail(err)
					}
					ls.Lets = append(ls.Lets, LetDef{Name: strings.TrimSpace(body[:i]), Expr: e, Text: body})
				case "variant", "decreases":
					c, err := parseClause(body, path, ln.n, nil)
					if err != nil {
						return err
					}
					ls.Variant = &c
				default:
					return fail(fmt.Errorf("unknown loop clause %q", what))
				}
			default:
				return fail(fmt.Errorf("unknown clause keyword %q", kw))
			}
		}
	}
	return nil
}

// LoadContracts finds zz_verif_contracts.go files under repo and lib spec files.
func LoadContracts(repo string, libDir string, mirrorDir string, modPath string) (*ContractSet, []string, error) {
	cs := NewContractSet()
	var notes []string
	var files []string
	filepath.Walk(repo, func(p string, info os.FileInfo, err error) error {
		if err != nil {
			return nil
		}
		if info.IsDir() && (info.Name() == ".git" || info.Name() == "vendor") {
			return filepath.SkipDir
		}
		if !info.IsDir() && strings.HasPrefix(info.Name(), "zz_verif_") && strings.HasSuffix(info.Name(), ".go") && !strings.HasSuffix(info.Name(), "_test.go") {
			files = append(files, p)
		}
		return nil
	})
	sort.Strings(files)
	for _, p := range files {
		rel, _ := filepath.Rel(repo, filepath.Dir(p))
		pkg := modPath
		if rel != "." {
			pkg = modPath + "/" + filepath.ToSlash(rel)
		}
		if err := cs.ParseContractFile(p, pkg, false); err != nil {
			return nil, nil, err
		}
	}
	if libDir != "" {
		libs, _ := filepath.Glob(filepath.Join(libDir, "*.spec"))
		sort.Strings(libs)
		for _, p := range libs {
			if err := cs.ParseContractFile(p, "", true); err != nil {
				return nil, nil, err
			}
		}
	}
	return cs, notes, nil
}
