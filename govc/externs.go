package main

import (
	"go/types"
	"strings"

	"golang.org/x/tools/go/ssa"
)

type externFn func(c *FnCtx, st *State, args []SV, rt types.Type) SV

type externHandler struct {
	fn   externFn
	mods func(c *FnCtx, cc *ssa.CallCommon, ms *loopModSet)
	note string
}

// packages whose calls are treated as no-ops (L-pure: logging / metrics export)
var noopPkgPrefixes = []string{
	modulePath + "/internal/pkg/log",
	"log/slog",
	"log",
	"github.com/prometheus/",
	"github.com/davecgh/go-spew",
	"github.com/grafana/pyroscope-go",
}

func (e *Engine) externHandler(f *ssa.Function) *externHandler {
	full := f.String()
	if h, ok := e.externs[full]; ok {
		return h
	}
	var path string
	if f.Object() != nil && f.Object().Pkg() != nil {
		path = f.Object().Pkg().Path()
	} else if p := e.pkgOf(f); p != nil {
		path = p.Pkg.Path()
	}
	for _, pre := range noopPkgPrefixes {
		if path == pre || strings.HasPrefix(path, pre+"/") || (strings.HasSuffix(pre, "/") && strings.HasPrefix(path, pre)) {
			return e.externs["<noop>"]
		}
	}
	return nil
}

func (e *Engine) invokeHandler(cc *ssa.CallCommon) *externHandler {
	if cc.Method == nil {
		return nil
	}
	key := cc.Method.FullName()
	if h, ok := e.invokes[key]; ok {
		return h
	}
	if cc.Method.Pkg() == nil && cc.Method.Name() == "Error" {
		return e.invokes["error.Error"]
	}
	return nil
}

func nonNilError(c *FnCtx, name string) SV {
	tag := c.vc.Fresh("err$tag$"+name, SInt)
	id := c.vc.Fresh("err$id$"+name, SInt)
	c.vc.Assert(App(SBool, ">", tag, IntLit(0)))
	return If{Tag: tag, ID: id}
}

func (e *Engine) initExterns() {
	e.externs = map[string]*externHandler{}
	e.invokes = map[string]*externHandler{}
	e.pure = map[string]bool{}
	reg := func(name string, note string, fn externFn) {
		e.externs[name] = &externHandler{fn: fn, note: note}
	}
	reg("<noop>", "L-pure: logging/metrics-export calls have no effect on verified state", func(c *FnCtx, st *State, args []SV, rt types.Type) SV {
		c.trusted["L-pure: logging / spew / prometheus / profiling calls are no-ops for verified state"] = true
		if rt == nil {
			return nil
		}
		return c.freshValue(rt, "noop")
	})
	// the process ends: no execution continues after the call
	for _, name := range []string{"os.Exit", "log.Fatal", "log.Fatalf", "log.Fatalln", "runtime.Goexit"} {
		reg(name, "does not return", func(c *FnCtx, st *State, args []SV, rt types.Type) SV {
			st.pc = TFalse
			return nil
		})
	}
	// sync.Once: Do(f) runs f the first time it is called on that Once and never again. Ghost
	// heap once$done maps the Once object to "already used"; the function value is inlined
	// under "not yet used" and the two outcomes are merged.
	e.externs["(*sync.Once).Do"] = &externHandler{note: "sync.Once.Do runs its function exactly the first time (ghost flag per Once object)",
		mods: func(c *FnCtx, cc *ssa.CallCommon, ms *loopModSet) { ms.all = true },
		fn: func(c *FnCtx, st *State, args []SV, rt types.Type) SV {
			c.trusted["sync.Once.Do runs its function exactly the first time it is called on that Once (ghost flag per Once object)"] = true
			var heap string
			var idx Term
			switch o := args[0].(type) {
			case Sc:
				heap, idx = "ghost$once$done", o.T
			case Ad:
				if o.Loc != nil {
					heap, idx = "ghost$once$done", c.subRef(o.Loc)
				}
			}
			fnv, ok := args[1].(Fn)
			if heap == "" || !ok || fnv.F == nil || c.curFrame == nil {
				c.abstract("sync.Once.Do on an unsupported receiver / function value: all heaps havocked")
				ms := newModSet()
				ms.all = true
				c.havoc(st, c.curFrame, ms, "sync.Once.Do")
				return nil
			}
			h := c.heapGet(st, heap, SArr(SInt, SBool))
			done := c.vc.Name("oncedone", Select(h, idx, SBool))
			run := st.clone()
			run.pc = c.vc.Name("pc", And(st.pc, Not(done)))
			c.inline(c.curFrame, run, fnv.F, nil, fnv.Free)
			hr := c.heapGet(run, heap, SArr(SInt, SBool))
			c.heapSet(run, heap, c.vc.Name("h", Store(hr, idx, TTrue)))
			skip := st.clone()
			skip.pc = c.vc.Name("pc", And(st.pc, done))
			m := c.mergeStates([]edgeState{{run, run.pc}, {skip, skip.pc}})
			*st = *m
			return nil
		}}
	reg("fmt.Errorf", "returns a non-nil error", func(c *FnCtx, st *State, args []SV, rt types.Type) SV {
		c.trusted["fmt.Errorf / errors.New return a non-nil error"] = true
		return nonNilError(c, "Errorf")
	})
	reg("errors.New", "returns a non-nil error", func(c *FnCtx, st *State, args []SV, rt types.Type) SV {
		c.trusted["fmt.Errorf / errors.New return a non-nil error"] = true
		return nonNilError(c, "New")
	})
	reg("fmt.Sprintf", "returns some string", func(c *FnCtx, st *State, args []SV, rt types.Type) SV {
		return Sc{c.vc.Fresh("sprintf", SStr)}
	})
	reg("fmt.Sprint", "returns some string", func(c *FnCtx, st *State, args []SV, rt types.Type) SV {
		return Sc{c.vc.Fresh("sprint", SStr)}
	})
	// --- time ---------------------------------------------------------------------------
	timeNote := "time.Time modelled as integer nanoseconds; Sub/Add exact (no saturation)"
	reg("(time.Time).Sub", timeNote, func(c *FnCtx, st *State, args []SV, rt types.Type) SV {
		c.trusted[timeNote] = true
		return Sc{App(SInt, "-", args[0].(Sc).T, args[1].(Sc).T)}
	})
	reg("(time.Time).Add", timeNote, func(c *FnCtx, st *State, args []SV, rt types.Type) SV {
		c.trusted[timeNote] = true
		return Sc{App(SInt, "+", args[0].(Sc).T, args[1].(Sc).T)}
	})
	reg("(time.Time).Before", timeNote, func(c *FnCtx, st *State, args []SV, rt types.Type) SV {
		c.trusted[timeNote] = true
		return Sc{App(SBool, "<", args[0].(Sc).T, args[1].(Sc).T)}
	})
	reg("(time.Time).After", timeNote, func(c *FnCtx, st *State, args []SV, rt types.Type) SV {
		c.trusted[timeNote] = true
		return Sc{App(SBool, ">", args[0].(Sc).T, args[1].(Sc).T)}
	})
	reg("(time.Time).Equal", timeNote, func(c *FnCtx, st *State, args []SV, rt types.Type) SV {
		c.trusted[timeNote] = true
		return Sc{Eq(args[0].(Sc).T, args[1].(Sc).T)}
	})
	reg("(time.Time).IsZero", timeNote, func(c *FnCtx, st *State, args []SV, rt types.Type) SV {
		c.trusted[timeNote] = true
		return Sc{Eq(args[0].(Sc).T, IntLit(0))}
	})
	reg("(time.Duration).Seconds", "Duration.Seconds() = ns / 1e9 (real arithmetic)", func(c *FnCtx, st *State, args []SV, rt types.Type) SV {
		d := args[0].(Sc).T
		if c.modeFP {
			c.abstract("Duration.Seconds in fp mode")
			return c.freshValue(rt, "secs")
		}
		c.trusted["(time.Duration).Seconds() = nanoseconds / 1e9 exactly (A-real)"] = true
		return Sc{App(SReal, "/", App(SReal, "to_real", d), Term{"1000000000.0", SReal})}
	})
	reg("time.Now", "returns some time", func(c *FnCtx, st *State, args []SV, rt types.Type) SV {
		return Sc{c.vc.Fresh("now", SInt)}
	})
	reg("time.Since", "returns some duration", func(c *FnCtx, st *State, args []SV, rt types.Type) SV {
		return Sc{c.vc.Fresh("since", SInt)}
	})
	reg("time.Sleep", "no effect on verified state", func(c *FnCtx, st *State, args []SV, rt types.Type) SV {
		c.event(st, "sleep", args[0].(Sc).T)
		return nil
	})
	// --- math ---------------------------------------------------------------------------
	reg("math.Min", "math.Min on non-NaN reals", func(c *FnCtx, st *State, args []SV, rt types.Type) SV {
		a, b := args[0].(Sc).T, args[1].(Sc).T
		if a.Sort == SReal {
			return Sc{c.vc.Name("min", Ite(App(SBool, "<=", a, b), a, b))}
		}
		return Sc{c.vc.Name("min", App(a.Sort, "fp.min", a, b))}
	})
	reg("math.Max", "math.Max on non-NaN reals", func(c *FnCtx, st *State, args []SV, rt types.Type) SV {
		a, b := args[0].(Sc).T, args[1].(Sc).T
		if a.Sort == SReal {
			return Sc{c.vc.Name("max", Ite(App(SBool, ">=", a, b), a, b))}
		}
		return Sc{c.vc.Name("max", App(a.Sort, "fp.max", a, b))}
	})
	round := func(name, mode string, realFloor bool) {
		reg(name, "IEEE roundToIntegral", func(c *FnCtx, st *State, args []SV, rt types.Type) SV {
			a := args[0].(Sc).T
			if a.Sort.IsFP() {
				return Sc{c.vc.Name("rnd", Term{"(fp.roundToIntegral " + mode + " " + a.S + ")", a.Sort})}
			}
			fl := App(SReal, "to_real", App(SInt, "to_int", a))
			if realFloor {
				return Sc{c.vc.Name("rnd", fl)}
			}
			// ceil(x) = -floor(-x)
			return Sc{c.vc.Name("rnd", App(SReal, "-", App(SReal, "to_real", App(SInt, "to_int", App(SReal, "-", a)))))}
		})
	}
	round("math.Ceil", "RTP", false)
	round("math.Floor", "RTN", true)
	// --- sync ---------------------------------------------------------------------------
	lock := func(name string, write bool, acquire bool) {
		defer func() {
			e.externs[name].mods = func(c *FnCtx, cc *ssa.CallCommon, ms *loopModSet) {
				ms.heaps["held$"] = SArr(SInt, SBool)
			}
		}()
		reg(name, "mutex: ghost held flag", func(c *FnCtx, st *State, args []SV, rt types.Type) SV {
			c.trusted["sync.Mutex/RWMutex provide mutual exclusion (ghost held flag per mutex)"] = true
			mu := args[0].(Sc).T
			h := c.heapGet(st, "held$", SArr(SInt, SBool))
			if acquire {
				c.heapSet(st, "held$", c.vc.Name("h", Store(h, mu, TTrue)))
				c.event(st, "lock", mu)
				c.relock(st, mu)
			} else {
				if c.checks["held"] {
					c.addObl("held", "unlock", nil, st, Select(h, mu, SBool), nil)
				}
				c.heapSet(st, "held$", c.vc.Name("h", Store(h, mu, TFalse)))
				c.event(st, "unlock", mu)
			}
			return nil
		})
	}
	lock("(*sync.Mutex).Lock", true, true)
	lock("(*sync.Mutex).Unlock", true, false)
	lock("(*sync.RWMutex).Lock", true, true)
	lock("(*sync.RWMutex).Unlock", true, false)
	lock("(*sync.RWMutex).RLock", false, true)
	lock("(*sync.RWMutex).RUnlock", false, false)

	e.invokes["(context.Context).Done"] = &externHandler{fn: func(c *FnCtx, st *State, args []SV, rt types.Type) SV {
		c.trusted["context.Context.Done() returns one channel per context, never sent on, closed exactly when the context is cancelled (cap modelled as -1)"] = true
		iv, _ := args[0].(If)
		ch := c.uf("ctxdone", SInt, iv.Tag, iv.ID)
		c.vc.Assert(App(SBool, ">", ch, IntLit(0)))
		c.registerDoneChan(ch)
		c.vc.Assert(Eq(Select(c.vc.Const("H0$chan$cap", SArr(SInt, SInt)), ch, SInt), IntLit(-1)))
		return Sc{ch}
	}}
	e.invokes["error.Error"] = &externHandler{fn: func(c *FnCtx, st *State, args []SV, rt types.Type) SV {
		iv, _ := args[0].(If)
		return Sc{c.uf("errtext", SStr, iv.Tag, iv.ID)}
	}}

	e.initAtomics()
	e.initSyncMap()
	e.initStringsBuilder()
	e.initRegexp()
	e.initHasher()
	for _, p := range []string{
		"strings.Contains", "strings.HasPrefix", "strings.HasSuffix", "strings.Index", "strings.IndexByte", "strings.LastIndex",
		"strings.ToLower", "strings.ToUpper", "strings.TrimSpace", "strings.Trim", "strings.TrimPrefix", "strings.TrimSuffix",
		"strings.TrimLeft", "strings.TrimRight", "strings.Count", "strings.Repeat", "strings.EqualFold", "strings.ReplaceAll",
		"strings.Replace", "strings.ContainsAny", "strings.ContainsRune", "strings.IndexAny", "strings.Title", "strings.LastIndexByte",
		"strconv.Itoa", "strconv.FormatUint", "strconv.FormatInt", "strconv.Quote", "path.Ext", "path.Base", "path/filepath.Ext", "path/filepath.Base", "path/filepath.Join",
		"net/url.QueryEscape", "net/url.PathEscape", "bytes.Contains", "bytes.HasPrefix", "bytes.Equal", "bytes.TrimSpace",
		"math.Abs", "math.Pow", "math.Sqrt", "math.Log", "math.Log2", "math.Exp", "math.Round", "math.Trunc",
		"unicode.IsSpace", "unicode.IsLetter", "unicode.IsDigit", "unicode/utf8.RuneCountInString", "unicode/utf8.ValidString",
		"net/http.StatusText", "net/http.CanonicalHeaderKey", "(net/http.Header).Get", "(net/http.Header).Values",
		"(*net/url.URL).String", "(*net/url.URL).Hostname", "(*net/url.URL).Port", "(*net/url.URL).IsAbs", "(*net/url.URL).Query",
		"(*regexp.Regexp).MatchString", "(*regexp.Regexp).String",
	} {
		e.pure[p] = true
	}
}
