package main

import (
	"fmt"
	"go/ast"
	"go/parser"
	"go/token"
	"go/types"
	"os"
	"sort"
	"strings"

	"golang.org/x/tools/go/callgraph"
	"golang.org/x/tools/go/packages"
	"golang.org/x/tools/go/ssa"
	"golang.org/x/tools/go/ssa/ssautil"
)

const modulePath = "github.com/internetarchive/Zeno"

type Engine struct {
	repo     string
	prog     *ssa.Program
	pkgs     []*packages.Package
	spkgs    map[string]*ssa.Package
	tpkgs    map[string]*types.Package
	byName   map[string][]*types.Package
	cs       *ContractSet
	errors   []string
	externs  map[string]*externHandler
	invokes  map[string]*externHandler
	pure     map[string]bool
	funcs    map[string]*ssa.Function // key: pkgpath::name
	fset     *token.FileSet
	overlay  map[string][]byte
	cg       *callgraph.Graph
	regexGlobals map[*ssa.Global]regexFact
}

func (e *Engine) errorf(format string, args ...interface{}) {
	msg := fmt.Sprintf(format, args...)
	for _, m := range e.errors {
		if m == msg {
			return
		}
	}
	e.errors = append(e.errors, msg)
}

func LoadEngine(repo string, overlay map[string][]byte, libDir string) (*Engine, error) {
	e := &Engine{repo: repo, spkgs: map[string]*ssa.Package{}, tpkgs: map[string]*types.Package{}, byName: map[string][]*types.Package{}, funcs: map[string]*ssa.Function{}, overlay: overlay}
	cfg := &packages.Config{
		Mode: packages.NeedName | packages.NeedFiles | packages.NeedCompiledGoFiles | packages.NeedImports |
			packages.NeedTypes | packages.NeedTypesSizes | packages.NeedSyntax | packages.NeedTypesInfo,
		Dir:        repo,
		BuildFlags: []string{"-tags=verif"},
		Overlay:    overlay,
		Env:        append(os.Environ(), "GOFLAGS=-mod=mod", "GOPROXY=off"),
	}
	pkgs, err := packages.Load(cfg, "./...")
	if err != nil {
		return nil, err
	}
	var errs []string
	for _, p := range pkgs {
		for _, er := range p.Errors {
			errs = append(errs, er.Error())
		}
	}
	if len(errs) > 0 {
		return nil, fmt.Errorf("package errors: %s", strings.Join(errs, "; "))
	}
	e.pkgs = pkgs
	e.fset = pkgs[0].Fset
	prog, spkgs := ssautil.Packages(pkgs, ssa.NaiveForm|ssa.GlobalDebug)
	e.prog = prog
	for i, sp := range spkgs {
		if sp == nil {
			continue
		}
		_ = i
		sp.Build()
		e.spkgs[sp.Pkg.Path()] = sp
	}
	var addT func(tp *types.Package)
	addT = func(tp *types.Package) {
		if tp == nil || e.tpkgs[tp.Path()] != nil {
			return
		}
		e.tpkgs[tp.Path()] = tp
		e.byName[tp.Name()] = append(e.byName[tp.Name()], tp)
		for _, imp := range tp.Imports() {
			addT(imp)
		}
	}
	for _, p := range pkgs {
		addT(p.Types)
	}
	// index functions
	for path, sp := range e.spkgs {
		for _, m := range sp.Members {
			switch x := m.(type) {
			case *ssa.Function:
				e.indexFunc(path, x)
			case *ssa.Type:
				for _, t := range []types.Type{x.Type(), types.NewPointer(x.Type())} {
					ms := prog.MethodSets.MethodSet(t)
					for i := 0; i < ms.Len(); i++ {
						if f := prog.MethodValue(ms.At(i)); f != nil && f.Pkg == sp && f.Synthetic == "" {
							e.indexFunc(path, f)
						}
					}
				}
			}
		}
	}
	cs, _, err := LoadContracts(repo, libDir, "", modulePath)
	if err != nil {
		return nil, err
	}
	e.cs = cs
	e.expandSweepAll()
	e.initExterns()
	e.scanRegexGlobals()
	return e, nil
}

func (e *Engine) indexFunc(path string, f *ssa.Function) {
	name := e.localName(f)
	e.funcs[path+"::"+name] = f
	for _, an := range f.AnonFuncs {
		e.indexFunc(path, an)
	}
}

// localName: "f", "(*T).m", "(T).m", "f$1"
func (e *Engine) localName(f *ssa.Function) string {
	if f.Parent() != nil {
		return e.localName(f.Parent()) + strings.TrimPrefix(f.Name(), f.Parent().Name())
	}
	if recv := f.Signature.Recv(); recv != nil {
		t := recv.Type()
		ptr := ""
		if p, ok := t.(*types.Pointer); ok {
			ptr = "*"
			t = p.Elem()
		}
		if n, ok := t.(*types.Named); ok {
			return fmt.Sprintf("(%s%s).%s", ptr, n.Obj().Name(), f.Name())
		}
	}
	return f.Name()
}

func (e *Engine) funcKey(f *ssa.Function) string {
	p := e.pkgOf(f)
	if p == nil {
		return f.String()
	}
	return p.Pkg.Path() + "::" + e.localName(f)
}

func (e *Engine) pkgOf(f *ssa.Function) *ssa.Package {
	for f != nil {
		if f.Pkg != nil {
			return f.Pkg
		}
		if f.Parent() == nil {
			break
		}
		f = f.Parent()
	}
	// methods of instantiated/wrapper funcs
	return nil
}

func (e *Engine) shortFuncName(f *ssa.Function) string {
	p := e.pkgOf(f)
	if p == nil {
		return f.String()
	}
	return p.Pkg.Name() + "." + e.localName(f)
}

func (e *Engine) inModule(f *ssa.Function) bool {
	p := e.pkgOf(f)
	if p == nil {
		// wrappers/bound methods of module types
		if f.Object() != nil && f.Object().Pkg() != nil {
			return strings.HasPrefix(f.Object().Pkg().Path(), modulePath)
		}
		return false
	}
	return strings.HasPrefix(p.Pkg.Path(), modulePath)
}

func (e *Engine) contractFor(f *ssa.Function) *FuncContract {
	if f == nil {
		return nil
	}
	// instantiation of a generic function: the contract is keyed by the generic origin
	if o := f.Origin(); o != nil && o != f {
		if o.Object() != nil && o.Object().Pkg() != nil {
			if ct, ok := e.cs.Funcs[o.Object().Pkg().Path()+"::"+o.Name()]; ok {
				return ct
			}
		}
	}
	if ct, ok := e.cs.Funcs[e.funcKey(f)]; ok {
		if ct.Sweep && !ct.HasMods && len(ct.Ensures) == 0 {
			// a bare safety sweep says nothing to callers: they see the function as if it had
			// no contract (inlined when small, abstracted otherwise)
			return nil
		}
		return ct
	}
	// dependency: keyed by import path + local name
	if f.Object() != nil && f.Object().Pkg() != nil {
		key := f.Object().Pkg().Path() + "::" + e.localName(f)
		if ct, ok := e.cs.Funcs[key]; ok {
			return ct
		}
	}
	return nil
}

func (e *Engine) ifaceContract(cc *ssa.CallCommon) *FuncContract {
	m := cc.Method
	if m == nil || m.Pkg() == nil {
		// methods of universe interfaces (error.Error)
		if m != nil {
			if ct, ok := e.cs.Funcs["::(error)."+m.Name()]; ok {
				return ct
			}
		}
		return nil
	}
	recv := cc.Value.Type()
	name := ""
	if n, ok := recv.(*types.Named); ok {
		name = n.Obj().Name()
		if n.Obj().Pkg() != nil {
			if ct, ok := e.cs.Funcs[n.Obj().Pkg().Path()+"::("+name+")."+m.Name()]; ok {
				return ct
			}
		}
	}
	if ct, ok := e.cs.Funcs[m.Pkg().Path()+"::(iface)."+m.Name()]; ok {
		return ct
	}
	return nil
}

func (e *Engine) typesPkg(path string) *types.Package {
	return e.tpkgs[path]
}

func (e *Engine) packageByName(name string, from *types.Package) *types.Package {
	if from != nil {
		for _, imp := range from.Imports() {
			if imp.Name() == name {
				return imp
			}
		}
	}
	cands := e.byName[name]
	// prefer module packages
	var mod []*types.Package
	for _, c := range cands {
		if strings.HasPrefix(c.Path(), modulePath) {
			mod = append(mod, c)
		}
	}
	if len(mod) == 1 {
		return mod[0]
	}
	if len(mod) == 0 && len(cands) >= 1 {
		sort.Slice(cands, func(i, j int) bool { return len(cands[i].Path()) < len(cands[j].Path()) })
		return cands[0]
	}
	if len(mod) > 1 {
		sort.Slice(mod, func(i, j int) bool { return mod[i].Path() < mod[j].Path() })
		return mod[0]
	}
	return nil
}

func (e *Engine) pred(pkg *types.Package, name string) *PredDef {
	if pkg != nil {
		if p, ok := e.cs.Preds[pkg.Path()+"::"+name]; ok {
			return p
		}
	}
	// global predicates (lib specs with package "")
	if p, ok := e.cs.Preds["::"+name]; ok {
		return p
	}
	// unique name across packages
	var found *PredDef
	for _, p := range e.cs.Preds {
		if p.Name == name {
			if found != nil {
				return nil
			}
			found = p
		}
	}
	return found
}

func (e *Engine) predIn(path, name string) *PredDef {
	return e.cs.Preds[path+"::"+name]
}

func (e *Engine) ghost(pkg *types.Package, name string) *GhostDef {
	if pkg != nil {
		if g, ok := e.cs.Ghosts[pkg.Path()+"::"+name]; ok {
			return g
		}
	}
	var found *GhostDef
	for _, g := range e.cs.Ghosts {
		if g.Name == name {
			if found != nil {
				return nil
			}
			found = g
		}
	}
	return found
}

// specType resolves a type written in a contract (Go type expression or real/mathint).
func (e *Engine) specType(pkg *types.Package, text string) types.Type {
	text = strings.TrimSpace(text)
	switch text {
	case "real":
		return tReal
	case "mathint":
		return tMathInt
	case "":
		return tBool
	}
	x, err := parser.ParseExpr(text)
	if err != nil {
		e.errorf("bad type %q: %v", text, err)
		return nil
	}
	return e.specTypeExpr(pkg, x)
}

func (e *Engine) specTypeExpr(pkg *types.Package, x ast.Expr) types.Type {
	switch n := x.(type) {
	case *ast.Ident:
		switch n.Name {
		case "real":
			return tReal
		case "mathint":
			return tMathInt
		}
		if pkg != nil {
			if obj, ok := pkg.Scope().Lookup(n.Name).(*types.TypeName); ok {
				return obj.Type()
			}
		}
		if obj, ok := types.Universe.Lookup(n.Name).(*types.TypeName); ok {
			return obj.Type()
		}
	case *ast.StarExpr:
		if t := e.specTypeExpr(pkg, n.X); t != nil {
			return types.NewPointer(t)
		}
	case *ast.ArrayType:
		if n.Len == nil {
			if t := e.specTypeExpr(pkg, n.Elt); t != nil {
				return types.NewSlice(t)
			}
		}
	case *ast.SelectorExpr:
		if id, ok := n.X.(*ast.Ident); ok {
			if p := e.packageByName(id.Name, pkg); p != nil {
				if obj, ok := p.Scope().Lookup(n.Sel.Name).(*types.TypeName); ok {
					return obj.Type()
				}
			}
		}
	case *ast.MapType:
		k := e.specTypeExpr(pkg, n.Key)
		v := e.specTypeExpr(pkg, n.Value)
		if k != nil && v != nil {
			return types.NewMap(k, v)
		}
	case *ast.ParenExpr:
		return e.specTypeExpr(pkg, n.X)
	case *ast.ChanType:
		if t := e.specTypeExpr(pkg, n.Value); t != nil {
			dir := types.SendRecv
			switch n.Dir {
			case ast.SEND:
				dir = types.SendOnly
			case ast.RECV:
				dir = types.RecvOnly
			}
			return types.NewChan(dir, t)
		}
	case *ast.StructType:
		if n.Fields == nil || len(n.Fields.List) == 0 {
			return types.NewStruct(nil, nil)
		}
	case *ast.InterfaceType:
		if n.Methods == nil || len(n.Methods.List) == 0 {
			return types.NewInterfaceType(nil, nil).Complete()
		}
	}
	e.errorf("cannot resolve type %s", types.ExprString(x))
	return nil
}

func (e *Engine) modPrefixes(ct *FuncContract, m Clause) []string { return nil }

// locHeapNames: heap names touched by a specific-location modifies entry (used for loop mod
// sets, where the whole heap family is havocked).
func (e *Engine) locHeapNames(c *FnCtx, ct *FuncContract, m *Clause) map[string]Sort {
	// static resolution by the types of the expression: x.f.g → field prefix of the last
	// selector. We need the callee's signature for the root identifier.
	fn := e.funcs[ct.Pkg+"::"+ct.Name]
	var scope = map[string]types.Type{}
	var sig *types.Signature
	if fn != nil {
		sig = fn.Signature
		for _, p := range fn.Params {
			scope[p.Name()] = p.Type()
		}
	} else {
		sig = e.depSignature(ct)
	}
	if sig != nil {
		if sig.Recv() != nil {
			scope["recv"] = sig.Recv().Type()
			if sig.Recv().Name() != "" {
				scope[sig.Recv().Name()] = sig.Recv().Type()
			}
		}
		for i := 0; i < sig.Params().Len(); i++ {
			scope[sig.Params().At(i).Name()] = sig.Params().At(i).Type()
			scope[fmt.Sprintf("arg%d", i)] = sig.Params().At(i).Type()
		}
	}
	pkg := e.typesPkg(ct.Pkg)
	var typeOf func(x ast.Expr) types.Type
	typeOf = func(x ast.Expr) types.Type {
		switch n := x.(type) {
		case *ast.Ident:
			if t, ok := scope[n.Name]; ok {
				return t
			}
			if pkg != nil {
				if v, ok := pkg.Scope().Lookup(n.Name).(*types.Var); ok {
					return v.Type()
				}
			}
			if g := e.ghost(pkg, n.Name); g != nil {
				return e.specType(pkg, g.Type)
			}
		case *ast.ParenExpr:
			return typeOf(n.X)
		case *ast.StarExpr:
			if t := typeOf(n.X); t != nil {
				if p, ok := t.Underlying().(*types.Pointer); ok {
					return p.Elem()
				}
			}
		case *ast.SelectorExpr:
			if t := typeOf(n.X); t != nil {
				if path, ok := fieldPath(t, n.Sel.Name, pkg); ok {
					cur := t
					for _, i := range path {
						cur = structOf(derefType(cur)).Field(i).Type()
					}
					return cur
				}
			}
		case *ast.IndexExpr:
			if t := typeOf(n.X); t != nil {
				switch u := t.Underlying().(type) {
				case *types.Slice:
					return u.Elem()
				case *types.Map:
					return u.Elem()
				}
			}
		}
		return nil
	}
	ms := newModSet()
	switch n := m.Expr.(type) {
	case *ast.SelectorExpr:
		bt := typeOf(n.X)
		if bt == nil {
			return nil
		}
		path, ok := fieldPath(bt, n.Sel.Name, pkg)
		if !ok {
			return nil
		}
		cur := bt
		for k, i := range path {
			st := derefType(cur)
			f := structOf(st).Field(i)
			if k == len(path)-1 {
				c.addLoc(ms, fieldPrefix(st, f.Name()), f.Type(), false, 0)
			}
			cur = f.Type()
		}
	case *ast.IndexExpr:
		bt := typeOf(n.X)
		if bt == nil {
			return nil
		}
		switch u := bt.Underlying().(type) {
		case *types.Slice:
			c.addLoc(ms, "elem$"+typeKey(u.Elem()), u.Elem(), true, 0)
		case *types.Map:
			for k, v := range c.mapHeapNames(u) {
				ms.heaps[k] = v
			}
		default:
			return nil
		}
	case *ast.StarExpr:
		t := typeOf(n.X)
		if t == nil {
			return nil
		}
		if p, ok := t.Underlying().(*types.Pointer); ok {
			if structOf(p.Elem()) != nil {
				c.addStructFields(ms, p.Elem(), 0)
			} else {
				c.addLoc(ms, "cell$"+typeKey(p.Elem()), p.Elem(), false, 0)
			}
		}
	case *ast.Ident:
		if g := e.ghost(pkg, n.Name); g != nil {
			ms.heaps["ghost$"+g.Pkg+"."+g.Name] = SArr(SInt, c.specSort(e.specType(pkg, g.Type)))
		} else if pkg != nil {
			if v, ok := pkg.Scope().Lookup(n.Name).(*types.Var); ok {
				c.addLoc(ms, "global$"+pkg.Name()+"."+v.Name(), v.Type(), false, 0)
			} else {
				return nil
			}
		}
	default:
		return nil
	}
	if ms.all {
		return nil
	}
	return ms.heaps
}

// depSignature finds the signature of a dependency function named in a lib contract.
func (e *Engine) depSignature(ct *FuncContract) *types.Signature {
	pkg := e.typesPkg(ct.Pkg)
	if pkg == nil {
		return nil
	}
	name := ct.Name
	if strings.HasPrefix(name, "(") {
		// (*T).m or (T).m
		end := strings.Index(name, ")")
		tn := strings.TrimPrefix(name[1:end], "*")
		mn := name[end+2:]
		if obj, ok := pkg.Scope().Lookup(tn).(*types.TypeName); ok {
			o, _, _ := types.LookupFieldOrMethod(types.NewPointer(obj.Type()), true, pkg, mn)
			if f, ok := o.(*types.Func); ok {
				return f.Type().(*types.Signature)
			}
			if it, ok := obj.Type().Underlying().(*types.Interface); ok {
				for i := 0; i < it.NumMethods(); i++ {
					if it.Method(i).Name() == mn {
						return it.Method(i).Type().(*types.Signature)
					}
				}
			}
		}
		return nil
	}
	if f, ok := pkg.Scope().Lookup(name).(*types.Func); ok {
		return f.Type().(*types.Signature)
	}
	return nil
}

func (e *Engine) isPureExtern(full string) bool { return e.pure[full] }

// funcValueContract finds a contract for a call through a function-typed struct field
// (`//@ func (field)T.f`) or package-level variable (`//@ func (var)name`).
func (e *Engine) funcValueContract(v ssa.Value) *FuncContract {
	u, ok := v.(*ssa.UnOp)
	if !ok || u.Op != token.MUL {
		return nil
	}
	switch x := u.X.(type) {
	case *ssa.FieldAddr:
		st := x.X.Type().Underlying().(*types.Pointer).Elem()
		n, ok := st.(*types.Named)
		if !ok || n.Obj().Pkg() == nil {
			return nil
		}
		f := st.Underlying().(*types.Struct).Field(x.Field)
		return e.cs.Funcs[n.Obj().Pkg().Path()+"::(field)"+n.Obj().Name()+"."+f.Name()]
	case *ssa.Global:
		return e.cs.Funcs[x.Pkg.Pkg.Path()+"::(var)"+x.Name()]
	}
	return nil
}

// expandSweepAll gives every contract-less function of a package with a `sweepall` directive a
// bare sweep contract (synthetic, in a stable order).
func (e *Engine) expandSweepAll() {
	for _, sa := range e.cs.SweepAll {
		var keys []string
		for key, fn := range e.funcs {
			if !strings.HasPrefix(key, sa.Pkg+"::") || fn == nil || fn.Blocks == nil {
				continue
			}
			name := strings.TrimPrefix(key, sa.Pkg+"::")
			if name == "init" || strings.HasPrefix(name, "init#") || strings.HasPrefix(name, "Test") || strings.HasPrefix(name, "Benchmark") {
				continue
			}
			if _, has := e.cs.Funcs[key]; has {
				continue
			}
			keys = append(keys, key)
		}
		sort.Strings(keys)
		for _, key := range keys {
			ct := &FuncContract{Pkg: sa.Pkg, Name: strings.TrimPrefix(key, sa.Pkg+"::"), Modes: map[string]bool{}, Checks: map[string]bool{}, File: sa.File, Line: sa.Line,
				Attrs: map[string]string{}, Props: sa.Props, Opaque: true, Sweep: true}
			for _, k := range sa.Kinds {
				ct.Checks[k] = true
			}
			e.cs.Funcs[key] = ct
			e.cs.Order = append(e.cs.Order, key)
		}
	}
}
