package main

// Per-property explanatory text written into the evidence files (what the discharged
// obligations establish, what is assumed, what this family of technique cannot decide).

func init() {
	propInfo["C18"] = PropInfo{
		Explanation: "Functional contract of watchers.checkThreshold over all (total, free, min-space-required) triples in exact 64-bit bit-vector / IEEE-754 binary64 semantics: refuse <=> free < T where T is the real-valued threshold (min*2^30 | 25*total/128 for total <= 256 GiB | 50 GiB), expressed on the integer side as free < ceil(T); plus lemma `mono` (refusal is downward closed in free). Each of the 6 paths is a separate obligation (mode paths). The two scaled-branch instances need ~3.5 min of cvc5 and are discharged only in the thorough tier; the quick tier searches them for a refutation and reports them under deferred_to_thorough_tier.",
		Assumptions: []string{
			"A-cfg-minspace: --min-space-required < 2^34 GiB, so the threshold fits in uint64 (NaN and values <= 0 fall through to the default branch and are covered)",
			"min*2^30 is computed exactly in float64 (multiplication by a power of two), so the spec's ceilu64(min*2^30) is the ceiling of the real threshold",
			"syscall.Statfs reports the volume truthfully and Blocks*Bsize / Bavail*Bsize do not wrap (CheckDiskUsage is not under contract)",
		},
		Undecided: []string{"that controler.startPipeline exits and WatchDiskSpace pauses on a non-nil result (call-site wiring read, not proved)"},
	}
	propInfo["C13"] = PropInfo{
		Explanation: "Token bucket under contract in real arithmetic: (1) invariant inv/phold/clockOK (tokens in [0,capacity], min(0.5,ideal) <= rate <= ideal, in-penalty => tokens < 1) established by newTokenBucket and preserved by refill, Wait, adjustOnFailure, onSuccess; (2) penalty law for 429/403/408/425 (tokens = 0, penaltyUntil = now + 5s*2^(k-1) capped at 30s) incl. float->int64 conversion range (safe:conv); (3) 5xx only lowers, success only raises toward and never above the configured rate; (4) window bound: every critical section satisfies pot(new, now') + released <= pot(old, now) + idealRate*(now'-now) for the potential pot = min(capacity, tokens + ideal*elapsed), 0 <= pot <= capacity (lemma pot-range), telescoping lemma window-step and lemma window-bound give releases <= capacity + T*rate for every history and timing; (5) `held:*` obligations: every access to bucket fields happens under tb.mu, and Wait's loop havocs the whole bucket between iterations (interference by concurrent waiters).",
		Assumptions: []string{
			"A-real: float64 arithmetic idealised as real arithmetic",
			"A-clock: nowFunc is monotone and later than the zero time (contract of the injectable clock)",
			"time.Time modelled as integer nanoseconds, Sub/Add exact",
			"math.Pow: exact for 2^0..2^2, 8 <= 2^n <= 2^30 for 3<=n<=30, 2^n >= 2^31 for n>=31, 0 < 0.5^n <= 1 (axioms in contracts/lib/math.spec)",
			"sync.Mutex provides mutual exclusion (critical sections are atomic w.r.t. each other)",
		},
		Undecided: []string{"that Wait eventually returns (liveness)", "BucketManager eviction: an evicted host gets a fresh full bucket (cross-object history, outside per-bucket contracts)", "50 ms sleep granularity"},
	}
	propInfo["C17"] = PropInfo{
		Explanation: "Atomic effect summaries: sync/atomic operations are single atomic actions on a location whose value is havocked before each action (interference by any number of other goroutines); ghost counters adds/stores/atomicops record this execution's contribution. Proved in 64-bit bit-vector semantics: counter.incr/decr = exactly one atomic add of +step / -step (x + ^(s-1) = x - s), get = one load, reset = one store; rate.incr = one add to count and one to total, rate.get/reset never touch total; mean.add = count+1, sum+value; mean.get (IEEE-754) = loaded sum / loaded count, 0 when count = 0; rateBucket.incr/getTotal under the embedded mutex (held:* obligations) update exactly the key's *rate, create it if absent, leave every other key untouched; exported wrappers URLsCrawledIncr, SeedsFinishedIncr, HTTPReturnCodesIncr, *RoutinesIncr/Decr, MeanHTTPRespTimeAdd have the same unit effect on the global stats object. Since every mutation is an atomic add, any interleaving yields init + sum of contributions (mod 2^64): totals equal event counts. Worker gauges: preprocessor/archiver/postprocessor worker loops hold `adds(gauge) = entry + 1` at the loop head and `adds(gauge) = entry` at every return (deferred Decr on all exit paths); stage functions are opaque there, justified by call-graph obligations (reach:*) that no callee reaches the gauge's Incr/Decr.",
		Assumptions: []string{
			"sync/atomic operations are linearizable; sync.Mutex gives mutual exclusion",
			"A-ghost-nowrap: callee effect summaries proved modulo 2^64 are used as mathematical +1/-1 in the worker contracts (a single worker never contributes 2^64 steps)",
			"opaque stage functions (preprocess, archive, postprocess, closeBodies, pause.Subscribe/Unsubscribe, Item.CheckConsistency/GetShortID/GetDepth) change no stats state: checked structurally by the reach:* call-graph obligations (CHA over the module; calls through reflection are not seen)",
			"the Prometheus mirror is outside the verified state (L-pure)",
		},
		Undecided: []string{"per-second rates (rate.get) - not part of the statement's totals", "that Stop joins all workers (WaitGroup) before the gauge is read: C03"},
	}
	propInfo["C12"] = PropInfo{
		Explanation: "Owicki-Gries proof over atomic actions for ReceiveInsert, ReceiveFeedback, MarkAsFinished, (*reactor).run and Freeze. Shared abstract state: token pool (len/cap), state table (sync.Map as key set + cardinality), input channel, and ghost counters pendIns/pendFin/pendSend/transit/outCnt. Before each atomic action (channel op, select, sync.Map op) the shared state is havocked (any number of other threads, any interleaving) and the global invariant G plus the thread's stable facts are assumed; after the action and its ghost updates G is re-proved (og-guarantee:*). G: tokens in use = tracked + pendIns + pendFin, 0 <= tokens <= cap, every tracked seed is in exactly one place (input channel, in transit, out in the pipeline, or pending its first send). From G and the thread-local facts: `nonblock:*` (the plain send on the input channel in ReceiveInsert, the send case in ReceiveFeedback and the token release in MarkAsFinished can always complete), feedback performs no operation on the token pool (noops:tokenPool), unknown feedback / repeated finish return an error and leave G intact, a frozen or stopped reactor rejects inserts (post:frozen; closing of context channels is irreversible), run() forwards each received seed exactly once or stops.",
		Assumptions: []string{
			"channels and sync.Map are linearizable; each operation is one atomic action",
			"A-own: callers of ReceiveFeedback / MarkAsFinished own the seed they pass (it is out in the pipeline) and ids of concurrently inserted seeds are distinct: stability of the thread-local facts under other threads' actions is argued from this ownership, not mechanically checked",
			"context.Context.Done() returns one channel per context that is only ever closed",
			"package-level error variables are non-nil (errors.New)",
		},
		Undecided: []string{"every accepted seed eventually reaches the output (liveness)", "absence of deadlock between stages", "Start/Stop lifecycle (sync.Once closure) is not under contract"},
	}
	propInfo["C11"] = PropInfo{
		Explanation: "Item tree operations under contract (pkg/models): NewItem, AddChild (full view of the new children sequence, links, statuses; error paths pure; wfNode preserved for parent and child), _unsafeRemoveChild/RemoveChild (exactly the first child with the id removed, order of the others kept, links and wfNode kept, aliasing-faithful in-place append), GetChildren (fresh copy), SetStatus/SetError, IsSeed/IsChild/IsRedirection/HasChildren/HasRedirection/HasWork against their definitions, allChildrenCompleted (quantified definition via loop invariant), CheckConsistency (returning nil implies the per-node predicate wfLocal for the node and, through the recursive call whose contract is assumed, its children), markCompleted (recursive, own contract assumed at the recursive calls: [mono] only isGot nodes change and only to Completed, [local] a node is completed iff it isGot and no child still has work, [above-untouched]; the last two under the tree assumption isTree), CompleteAndCheck (result <=> seed has no work left; decision clause). DedupeItems: call-site obligations at both removal sites (same-url: a node is removed only while a node with the same URL stays recorded; leaf-only: the removed node has no children) plus the structural obligation that every RemoveChild call site carries them; the leaf-only obligations are refuted on the real code and recorded as known findings (replay: root->[x->[d], b->[c]] with url(d)=url(b) loses c).",
		Assumptions: []string{
			"A-tree (isTree): below a seed the item graph is a tree - a depth function grows by one along every child link and child entries are non-nil; used as antecedent of markCompleted/CompleteAndCheck clauses",
			"termination of the recursions (finite trees)",
			"(*URL).String is a function of the URL object (urlKey); determinism of canonicalisation is C09",
			"flattenTree returns the nodes of the tree (opaque contract)",
			"RemoveChild/_unsafeRemoveChild no-nil-entry precondition is a no-panic obligation and is accounted under C10, not here",
		},
		Undecided: []string{"global lemma `complete iff no node in the whole tree awaits work` (needs an inductive subtree view; only the per-node rule is proved)", "DedupeItems functional spec `exactly one node per URL` beyond the per-removal obligations", "GetNodesAtLevel / GetMaxDepth / Traverse / GetDepthWithoutRedirections are not yet under contract here (see C06)"},
	}
	propInfo["C06"] = PropInfo{
		Explanation: "Bounded work per seed, as contracts on the real functions: (1) postprocessItem: a redirect response at the redirect limit completes the node without a child (redirect-max); below the limit exactly one Fresh child is added whose URL carries Redirects+1 and the page's hops (redirect-one), so along any chain Redirects grows by one per redirect edge and never exceeds --max-redirect; with domains-crawl off a node deeper than 2 levels (GetDepthWithoutRedirections, verified against the recursive definition dwr) is completed without children (depth); non-archived nodes are left alone; AddChild preconditions hold at every call site (wfNode loop invariant). (2) archive$1 retry loop: invariant attempts = entry + retry and retry <= MaxRetry with net/http Client.Do counted by a ghost counter, hence at most --max-retry + 1 attempts per visit, and the loop is never left through its condition (so the response used afterwards is the last one obtained). (3) hop bookkeeping: isStatusCodeRedirect and shouldExtractOutlinks/shouldExtractAssets against their definitions (outlinks only from pages with hops < max-hops unless domains-crawl), extractAssets: nil and self-referencing assets filtered, every returned asset carries the page's hops (for extractions without separate outlinks).",
		Assumptions: []string{
			"A-cfg: MaxRetry >= 0",
			"net/http (*Client).Do is one attempt per call (ghost counter), returns a non-nil response with non-nil body iff err == nil",
			"extractor / site-specific entry points are opaque (modify only URL caches and fresh objects); domainscrawl.Enabled/Match are functions of configuration and URL text",
			"ProcessBody, rate-limiter manager calls, discard hook: opaque, do not touch configuration or the retry state",
		},
		Undecided: []string{"lemma `number of pipeline passes is bounded` (ranking function over the tree) is argued from redirect-one/depth, not mechanised", "outlink hop values (hops+1 / 0 on domains-crawl match) for extractions that return assets and outlinks together: needs distinctness of the returned URL objects", "wall-clock time of a pass"},
	}
	propInfo["C09"] = PropInfo{
		Explanation: "NormalizeURL: an accepted URL went through the scheme gate (http/https), the host gate (dotted, not localhost/127.0.0.1) and its stored text is the ada serialisation taken after the fragment was cleared; relative references are resolved by ada against scheme://host (path-absolute) or the parent's text (other) - field-exact postconditions over an abstract model of the goada object; the absolute branch is a function of the URL text. URLToString: signed reddit hosts keep their raw query, otherwise RawQuery = reenc(old RawQuery) where reenc names what encodeRawQuery computes; that this is a function of the text is the structural obligation `deterministic` (no map iteration, select, goroutine or clock in URLToString / encodeRawQuery or their module callees); host converted by idna; result = net/url serialisation of the updated fields; (*URL).String$1 stores exactly that in the cache.",
		Assumptions: []string{
			"goada (ada-url) implements WHATWG parsing/resolution; New/NewWithBase/Href/Protocol/Hostname are functions of their text arguments; SetHash(\"\") removes the fragment and keeps protocol/host (contracts/lib/c09_goada.spec)",
			"idna.ToASCII, net/url Parse/String/QueryEscape/QueryUnescape, strings.Cut are functions of their arguments (lib specs)",
			"(*URL).String (sync.Once wrapper) is opaque; encodeRawQuery's body is opaque (only its determinism is checked)",
		},
		Undecided: []string{"idempotence (normalising a canonical string again leaves it unchanged) and `resolves as the URL standard prescribes`: properties of ada-url, reachable only through the assumptions", "that reenc keeps order and multiplicity is read off encodeRawQuery (pair-by-pair loop), not proved"},
	}
	propInfo["C08"] = PropInfo{
		Explanation: "Local seencheck (seencheck.SeencheckItem) over an abstract store map (key -> asset|seed): loop invariants level/only-seen/monotone/no-demotion and per-node step invariants: a node ends Seen only if the store reported its key with a compatible type (call-site assertion `sound` on every SetStatus, assert-all), every not-seen node's key is recorded with its type afterwards, the asset->seed promotion exception is honoured and recorded as seed. Crawl-HQ seencheck (hq.SeencheckItem): on a client error no status changes; a node is newly marked Seen only if the answer lacks the value sent for it (URL.Raw).",
		Assumptions: []string{"LevelDB get/set behave as a map (opaque isSeen/seen; the write is assumed to succeed)", "gocrawlhq Seencheck returns the subset of sent values that are new and touches no module state", "GetNodesAtLevel/GetMaxDepth opaque", "same canonical URL => same key relies on C09 (URL.String a function of the text) and on fnv being a function"},
		Undecided: []string{"that the request slice handed to HQ carries the nodes' URL.Raw (append of struct elements is abstracted by the engine)", "preprocess: Seen nodes get no request (preprocess stays opaque)", "two workers racing between isSeen and seen on the same URL"},
	}
	propInfo["C15"] = PropInfo{
		Explanation: "hopsToPath/pathToHops tied to spec functions (strings.Repeat/Count) + lemma hops-roundtrip (pathToHops(hopsToPath(h)) = h for h >= 0); record conversions field-exact at the point where the queue record is built (HQ and LQ producers: Value = raw URL text, Via = seedVia, Path/Hops from the hop count; finisher receivers: ack record carries the item's id); lq client Add/Delete/Get: every row offered / deleted / claimed by id, exactly one commit on success, none on error, caller's rows not written; sender retry loops (hq producerSender/finisherSender, lq finisherSender): return only after a successful Add/Delete of the whole unchanged batch or when the context is done - the client may fail arbitrarily often; receiver batching: received = handed + len(batch), 0 <= len < batchSize at the loop head, fresh backing array after each hand-off (size- and timer-triggered paths); dispatcher goroutines forward their own batch; postprocessItem: every outlink item carries the parent page's canonical URL as via.",
		Assumptions: []string{"gocrawlhq client Add/Delete: error result unconstrained (any number of failures), touch no module state", "database/sql Begin/Commit/Rollback and the sqlc queries as ghost-recording opaque contracts; the SQLite UNIQUE index and the matched error text are not modelled", "strings.Repeat/Count axiom count(repeat(\"L\", n), \"L\") = n"},
		Undecided: []string{"record -> item conversion in the consumers and finisher.worker (callers of the reactor API: C12 contracts name thread-local ghosts)", "multiset equality of batch contents (only counts are proved: append of struct elements is abstracted)", "delay bounds"},
	}
}
