package main

import (
	"flag"
	"fmt"
	"os"
	"sort"
	"strings"
)

func usage() {
	fmt.Fprintln(os.Stderr, `usage:
  govc check <PROPERTY> [--tier quick|thorough]
  govc dump  <pkgname> <func>          print SSA
  govc vc    <funckey> [obligation]    print queries
  govc lock                            rewrite obligations.lock from the current tree
  govc selftest                        run the must-fail corpus
  govc replay <file>                   re-run a stored replay`)
	os.Exit(2)
}

func main() {
	if len(os.Args) < 2 {
		usage()
	}
	initWorkDir()
	code := 0
	func() {
		defer cleanupWorkDir()
		switch os.Args[1] {
		case "check":
			code = cmdCheck(os.Args[2:])
		case "dump":
			code = cmdDump(os.Args[2:])
		case "vc":
			code = cmdVC(os.Args[2:])
		case "lock":
			code = cmdLock(os.Args[2:])
		case "selftest":
			code = cmdSelftest(os.Args[2:])
		case "replay":
			code = cmdReplay(os.Args[2:])
		default:
			usage()
		}
	}()
	os.Exit(code)
}

func verifDir() string {
	if d := os.Getenv("VERIF_DIR"); d != "" {
		return d
	}
	return "/verif"
}

func repoDir() string {
	if d := os.Getenv("VERIF_REPO"); d != "" {
		return d
	}
	return "/repo"
}

func cmdDump(args []string) int {
	if len(args) < 2 {
		usage()
	}
	e, err := LoadEngine(repoDir(), nil, verifDir()+"/contracts/lib")
	if err != nil {
		fmt.Fprintln(os.Stderr, err)
		return 2
	}
	var keys []string
	for k := range e.funcs {
		keys = append(keys, k)
	}
	sort.Strings(keys)
	for _, k := range keys {
		f := e.funcs[k]
		p := e.pkgOf(f)
		if p != nil && p.Pkg.Name() == args[0] && (e.localName(f) == args[1] || args[1] == "*") {
			if args[1] == "*" {
				fmt.Println(k)
				continue
			}
			f.WriteTo(os.Stdout)
		}
	}
	return 0
}

func cmdVC(args []string) int {
	fs := flag.NewFlagSet("vc", flag.ExitOnError)
	fs.Parse(args)
	if fs.NArg() < 1 {
		usage()
	}
	e, err := LoadEngine(repoDir(), nil, verifDir()+"/contracts/lib")
	if err != nil {
		fmt.Fprintln(os.Stderr, err)
		return 2
	}
	key := fs.Arg(0)
	if !strings.Contains(key, "::") {
		for k := range e.cs.Funcs {
			if strings.HasSuffix(k, "::"+key) || strings.HasSuffix(k, "/"+key) {
				key = k
			}
		}
	}
	res := e.VerifyFunc(key)
	if res.Err != "" {
		fmt.Fprintln(os.Stderr, res.Err)
	}
	for _, er := range e.errors {
		fmt.Fprintln(os.Stderr, "error:", er)
	}
	for _, o := range res.Obls {
		if fs.NArg() >= 2 && !strings.Contains(o.Name, fs.Arg(1)) {
			continue
		}
		fmt.Printf("; ---- %s (%s)\n", o.Name, o.Kind)
		if fs.NArg() >= 2 {
			g := o.Goal
			if o.Kind == "cover" {
				g = TFalse
			}
			fmt.Println(o.vc.Query(o.Hyp, g, -1, true))
		}
	}
	for _, a := range res.Abstracted {
		fmt.Println("; abstracted:", a)
	}
	return 0
}
