package main

import (
	"fmt"
	"os"
	"go/constant"
	"go/token"
	"go/types"
	"math/big"
	"sort"
	"strings"

	"golang.org/x/tools/go/ssa"
)

// Obligation is one named proof obligation: hyp ⇒ goal under the VC's definitions.
type Obligation struct {
	Name     string
	Class    string
	Props    []string
	Hyp      Term
	Goal     Term
	NAsserts int
	Clause   *Clause
	FuncKey  string
	Kind     string // "prove" (expect unsat of hyp∧¬goal) or "cover" (expect sat of hyp)
	vc       *VC
	Note     string
	Watch    []WatchTerm
	Where    string // source position of the instruction the obligation was generated at
}

type FnCtx struct {
	escapedPtrs []escapedPtr
	eng       *Engine
	vc        *VC
	fn        *ssa.Function
	contract  *FuncContract
	modeBV    bool
	modeFP    bool
	obls      []*Obligation
	heapNames map[string]Sort
	subFuncs  map[string]int
	subDone   map[string]bool
	subIDs    map[string]int
	funcRefs  map[string]bool
	typeTags  map[string]int
	strLits   map[string]Term
	strLitText map[string]string
	strAxioms bool
	strLenDone map[string]bool
	ixAxiom   bool
	lastReadInitial bool
	epochs    int
	abstracted map[string]bool
	assumptions map[string]bool
	trusted   map[string]bool
	frames    int
	initial   *State
	frameWrites map[string][]Term // heap name -> list of (pc => allowed)
	noFrame   int
	oblCount  map[string]int
	props     []string
	checks    map[string]bool
	ghostSorts map[string]Sort
	inlineDepth int
	events    []string
	inlineStack []*ssa.Function
	usedContracts map[string]bool
	frameSpec *frameSpec
	subRoots  map[string]Term
	inSpec    int
	spawns    []string
	modeWrap  bool
	modePaths bool
	substrAxiom bool
	lastNext  *nextInfo
	axiomsDone map[*AxiomDef]bool
	trustedCalls map[string]int
	pendingAxioms []*PredDef
	atomicLoads []Term
	atomicsHavocked bool
	pinned    bool
	lockCount map[string]int
	callSites int
	og        *ogSpec
	opKeys    map[ssa.Instruction]string
	extPtrs   map[string]Term // pointer term -> condition under which it is a dependency's (pointer, error) result
	deadBlocks []*ssa.BasicBlock
	ogResultTypes map[string]types.Type
	decided   []*OblResult
	doneChans []Term
	closedHavocs [][2]Term
	pendingShared bool
	curFrame  *Frame
	curInstr  ssa.Instruction
	selectIdx map[*ssa.Select]Term
	guards    []guardSpec
	guardObls map[string][]Term
}

// guardSpec: every access to a field of object Obj (other than the mutex itself) must happen
// while Mu is held.
type guardSpec struct {
	Obj, Mu Term
	Exempt  map[string]bool
	ObjType types.Type
}

type Frame struct {
	id      int
	fn      *ssa.Function
	regs    map[ssa.Value]SV
	direct  map[*ssa.Alloc]bool
	params  map[string]ssa.Value
	rets    []retState
	depth   int
	contract *FuncContract
	named   map[string]*ssa.Alloc // source variable name -> alloc (last one wins)
	free    []SV
	deferArgs map[*ssa.Defer][]SV
	deferFn   map[*ssa.Defer]SV
	edgeGuards map[[2]*ssa.BasicBlock]Term
	pathPred   *ssa.BasicBlock
	loopLets   map[string]bound
	curLoop    *loopInfo
}

type retState struct {
	st  *State
	res []SV
}

func (c *FnCtx) abstract(note string) {
	c.abstracted[note] = true
}

func (c *FnCtx) assume(note string) {
	c.assumptions[note] = true
}

func (c *FnCtx) addObl(class, label string, props []string, st *State, goal Term, cl *Clause) *Obligation {
	base := c.eng.shortFuncName(c.fn) + "/" + class
	if label != "" {
		base += ":" + label
	}
	c.oblCount[base]++
	name := base
	if n := c.oblCount[base]; n > 1 {
		name = fmt.Sprintf("%s#%d", base, n)
	}
	if props == nil {
		props = c.props
	}
	o := &Obligation{Name: name, Class: class, Props: props, Hyp: st.pc, Goal: goal, NAsserts: len(c.vc.asserts), Clause: cl, Kind: "prove", vc: c.vc, FuncKey: c.eng.funcKey(c.fn)}
	o.Where = c.whereNow()
	c.obls = append(c.obls, o)
	return o
}

// whereNow: file:line of the instruction being executed (or of the nearest earlier instruction
// of its block that has a position), relative to the repository.
func (c *FnCtx) whereNow() string {
	in := c.curInstr
	if in == nil || in.Block() == nil {
		return ""
	}
	pos := in.Pos()
	if !pos.IsValid() {
		if v, ok := in.(ssa.Value); ok {
			_ = v
		}
		instrs := in.Block().Instrs
		idx := -1
		for i, x := range instrs {
			if x == in {
				idx = i
			}
		}
		for i := idx - 1; i >= 0 && !pos.IsValid(); i-- {
			pos = instrs[i].Pos()
		}
		for i := idx + 1; i < len(instrs) && !pos.IsValid(); i++ {
			pos = instrs[i].Pos()
		}
	}
	if !pos.IsValid() {
		return ""
	}
	p := c.eng.prog.Fset.Position(pos)
	return fmt.Sprintf("%s:%d", strings.TrimPrefix(p.Filename, repoDir()+"/"), p.Line)
}

// nilSafety: dereference of pointer term t. `checks nil`: always an obligation. `checks extnil`:
// an obligation only when t came back from a dependency call (a result nobody in the module
// constructed: the classic "value used although the call failed"); otherwise assumed.
func (c *FnCtx) nilSafety(st *State, t Term) {
	cond := Not(Eq(t, IntLit(0)))
	if !(c.checks["nil"] || c.checks["all"]) && c.checks["extnil"] {
		if when, ok := c.extPtrs[t.S]; ok {
			// only as far as the value is the dependency's result (after a join it may also come
			// from elsewhere: that part stays assumed non-nil, like every other pointer)
			c.safety("extnil", st, Implies(when, cond))
			st.pc = c.vc.Name("pc", And(st.pc, cond))
			return
		}
	}
	c.safety("nil", st, cond)
}

// markExtResult records the pointer-typed results of a dependency call and assumes Go's
// (value, error) convention for them: a nil error comes with a non-nil value.
func (c *FnCtx) markExtResult(res SV, rt types.Type) {
	if res == nil || rt == nil {
		return
	}
	isPtr := func(t types.Type) bool {
		_, ok := t.Underlying().(*types.Pointer)
		return ok
	}
	if c.extPtrs == nil {
		c.extPtrs = map[string]Term{}
	}
	switch x := res.(type) {
	case Tu:
		// only (pointer, ..., error) results: a single pointer result carries no error to test,
		// and libraries such as goquery return non-nil selections by convention
		tu, ok := rt.(*types.Tuple)
		if !ok || tu.Len() != len(x.Elems) {
			return
		}
		var errTag *Term
		if last, ok := x.Elems[len(x.Elems)-1].(If); ok && types.Identical(tu.At(tu.Len()-1).Type(), types.Universe.Lookup("error").Type()) {
			errTag = &last.Tag
		}
		for i, el := range x.Elems {
			sc, ok := el.(Sc)
			if !ok || !isPtr(tu.At(i).Type()) {
				continue
			}
			if errTag == nil {
				continue
			}
			c.extPtrs[sc.T.S] = TTrue
			if errTag != nil {
				c.vc.Assert(Implies(Eq(*errTag, IntLit(0)), Not(Eq(sc.T, IntLit(0)))))
				c.assume("A-value-or-error: a dependency returning (pointer, error) returns a non-nil pointer when the error is nil")
			}
		}
	}
}

// safety obligation or assumption depending on `checks`.
func (c *FnCtx) safety(kind string, st *State, cond Term) {
	if cond.IsTrue() {
		return
	}
	if c.checks[kind] || c.checks["all"] {
		var props []string
		if c.contract != nil && c.contract.Attrs["safety"] != "" {
			// `attr safety C10`: the implicit-panic obligations also count for that property
			props = append(append(props, c.props...), strings.Fields(strings.ReplaceAll(c.contract.Attrs["safety"], ",", " "))...)
		}
		c.addObl("safe:"+kind, "", props, st, cond, nil)
	} else {
		c.assume("A-nopanic: implicit " + kind + " panics are not checked in this function (executions that panic are outside the contract)")
	}
	// continue under the assumption that the operation did not panic
	st.pc = c.vc.Name("pc", And(st.pc, cond))
}

// ---------------------------------------------------------------------------------------

func (c *FnCtx) newFrame(fn *ssa.Function, depth int) *Frame {
	c.frames++
	f := &Frame{id: c.frames, fn: fn, regs: map[ssa.Value]SV{}, direct: map[*ssa.Alloc]bool{}, params: map[string]ssa.Value{}, depth: depth, named: map[string]*ssa.Alloc{}, deferArgs: map[*ssa.Defer][]SV{}, deferFn: map[*ssa.Defer]SV{}, edgeGuards: map[[2]*ssa.BasicBlock]Term{}}
	for _, p := range fn.Params {
		f.params[p.Name()] = p
	}
	// classify allocs
	for _, b := range fn.Blocks {
		for _, in := range b.Instrs {
			a, ok := in.(*ssa.Alloc)
			if !ok {
				continue
			}
			if a.Comment != "" {
				f.named[a.Comment] = a
			}
			et := a.Type().Underlying().(*types.Pointer).Elem()
			if structOf(et) != nil {
				continue // struct locals live in the heap
			}
			if _, isArr := et.Underlying().(*types.Array); isArr {
				continue
			}
			direct := true
			for _, r := range *a.Referrers() {
				switch x := r.(type) {
				case *ssa.Store:
					if x.Addr != a {
						direct = false
					}
				case *ssa.UnOp:
					if x.Op != token.MUL {
						direct = false
					}
				case *ssa.DebugRef:
				case *ssa.MakeClosure:
					// captured by a closure: stays a cell, closure bodies access it through Ad{Cell}
				default:
					direct = false
				}
			}
			f.direct[a] = direct
		}
	}
	return f
}

func (c *FnCtx) constValue(k *ssa.Const) SV {
	t := k.Type()
	if k.Value == nil {
		return c.zeroValue(t)
	}
	s := c.scalarSort(t)
	switch {
	case s == SBool:
		return Sc{BoolLit(constant.BoolVal(k.Value))}
	case s == SStr:
		return Sc{c.strLit(constant.StringVal(k.Value))}
	case s == SInt:
		if isTimeTime(t) {
			return Sc{IntLit(0)}
		}
		v := constant.ToInt(k.Value)
		bi, ok := new(big.Int).SetString(v.ExactString(), 10)
		if !ok {
			c.abstract("non-integer constant for int sort")
			return Sc{c.vc.Fresh("k", SInt)}
		}
		return Sc{BigIntLit(bi)}
	case s.IsBV():
		v := constant.ToInt(k.Value)
		bi, _ := new(big.Int).SetString(v.ExactString(), 10)
		return Sc{BVLit(bi, s.BVWidth())}
	case s == SReal:
		// exact value of the float64 constant (Go rounds constants to float64 when typed)
		f, _ := constant.Float64Val(k.Value)
		r := new(big.Rat)
		if b, ok := t.Underlying().(*types.Basic); ok && b.Kind() == types.Float32 {
			f32, _ := constant.Float32Val(k.Value)
			r.SetFloat64(float64(f32))
		} else {
			r.SetFloat64(f)
		}
		return Sc{RealLit(r)}
	case s == SFP:
		f, _ := constant.Float64Val(k.Value)
		return Sc{FPLit(f)}
	}
	return c.zeroValue(t)
}

func (c *FnCtx) val(fr *Frame, st *State, v ssa.Value) SV {
	switch x := v.(type) {
	case *ssa.Const:
		return c.constValue(x)
	case *ssa.Global:
		t := x.Type().Underlying().(*types.Pointer).Elem()
		if structOf(t) != nil {
			return Sc{c.globalRef(x)}
		}
		return Ad{Loc: &Loc{Prefix: "global$" + x.Pkg.Pkg.Name() + "." + x.Name(), Idx: IntLit(0), T: t}}
	case *ssa.Function:
		return Fn{F: x}
	case *ssa.Builtin:
		return Fn{Opaque: IntLit(-1)}
	case *ssa.FreeVar:
		for i, fv := range fr.fn.FreeVars {
			if fv == x && i < len(fr.free) {
				return fr.free[i]
			}
		}
		if sv, ok := fr.regs[v]; ok {
			return sv
		}
	}
	if sv, ok := fr.regs[v]; ok {
		return sv
	}
	c.abstract(fmt.Sprintf("use of undefined value %s in %s", v.Name(), fr.fn.Name()))
	sv := c.freshValue(v.Type(), "undef")
	fr.regs[v] = sv
	return sv
}

func (c *FnCtx) globalRef(g *ssa.Global) Term {
	t := c.vc.Const("gref$"+g.Pkg.Pkg.Name()+"."+g.Name(), SInt)
	if !c.funcRefs[t.S] {
		c.funcRefs[t.S] = true
		c.vc.Assert(App(SBool, ">", t, IntLit(0)))
	}
	return t
}

func (c *FnCtx) term(fr *Frame, st *State, v ssa.Value) Term {
	sv := c.val(fr, st, v)
	if s, ok := sv.(Sc); ok {
		return s.T
	}
	want := c.scalarSort(v.Type())
	if want == "" {
		want = SInt
	}
	return c.scalarOf(sv, want)
}

// Allocation is a bump allocator: the ghost watermark `alloc` is the next free reference;
// a reference r is allocated iff 0 < r < alloc. Fresh objects are therefore distinct from
// every object that existed before, and allocation only grows — without any quantifier.
func (c *FnCtx) allocInit() Term {
	t := c.vc.Const("H0$alloc", SInt)
	if !c.funcRefs["H0$alloc"] {
		c.funcRefs["H0$alloc"] = true
		c.vc.Assert(App(SBool, ">=", t, IntLit(1)))
	}
	return t
}

func (c *FnCtx) allocCur(st *State) Term {
	if t, ok := st.heap["alloc"]; ok {
		return t
	}
	c.heapNames["alloc"] = SInt
	return c.allocInit()
}

func (c *FnCtx) isAllocated(st *State, ref Term) Term {
	return And(App(SBool, "<", IntLit(0), ref), App(SBool, "<", ref, c.allocCur(st)))
}

// allocRef creates a fresh object reference.
func (c *FnCtx) allocRef(st *State, prefix string) Term {
	cur := c.allocCur(st)
	r := c.vc.Fresh(prefix, SInt)
	c.vc.Assert(Eq(r, cur))
	c.heapSet(st, "alloc", c.vc.Name("al", App(SInt, "+", cur, IntLit(1))))
	return r
}

func (c *FnCtx) assumeAllocated(st *State, ref Term) {
	c.vc.Assert(Or(Eq(ref, IntLit(0)), c.isAllocated(st, ref)))
}

// ---------------------------------------------------------------------------------------
// loops

type loopInfo struct {
	head   *ssa.BasicBlock
	blocks map[*ssa.BasicBlock]bool
	backs  []*ssa.BasicBlock // sources of back edges
	spec   *LoopSpec
	key    string
	rangeAlloc *ssa.Alloc // hidden index of a range loop
	variant0   *Term      // value of the loop's variant at the head of the current iteration
}

func findLoops(fn *ssa.Function) map[*ssa.BasicBlock]*loopInfo {
	loops := map[*ssa.BasicBlock]*loopInfo{}
	for _, b := range fn.Blocks {
		for _, s := range b.Succs {
			if s.Dominates(b) {
				li := loops[s]
				if li == nil {
					li = &loopInfo{head: s, blocks: map[*ssa.BasicBlock]bool{s: true}}
					loops[s] = li
				}
				li.backs = append(li.backs, b)
				// natural loop: all blocks that reach b without passing through s
				var stack []*ssa.BasicBlock
				if !li.blocks[b] {
					li.blocks[b] = true
					stack = append(stack, b)
				}
				for len(stack) > 0 {
					x := stack[len(stack)-1]
					stack = stack[:len(stack)-1]
					for _, p := range x.Preds {
						if !li.blocks[p] {
							li.blocks[p] = true
							stack = append(stack, p)
						}
					}
				}
			}
		}
	}
	return loops
}

func rpo(fn *ssa.Function) []*ssa.BasicBlock {
	seen := map[*ssa.BasicBlock]bool{}
	var order []*ssa.BasicBlock
	var dfs func(b *ssa.BasicBlock)
	dfs = func(b *ssa.BasicBlock) {
		seen[b] = true
		for _, s := range b.Succs {
			if s.Dominates(b) { // back edge
				continue
			}
			if !seen[s] {
				dfs(s)
			}
		}
		order = append(order, b)
	}
	if len(fn.Blocks) > 0 {
		dfs(fn.Blocks[0])
	}
	for i, j := 0, len(order)-1; i < j; i, j = i+1, j-1 {
		order[i], order[j] = order[j], order[i]
	}
	return order
}

// loopKeyOf derives the contract key of a loop: the name of the variable tested or ranged.
func loopKeyOf(li *loopInfo) []string {
	var keys []string
	h := li.head
	c := h.Comment
	switch {
	case strings.HasPrefix(c, "rangeindex"):
		keys = append(keys, "range")
	case strings.HasPrefix(c, "rangeiter"):
		keys = append(keys, "rangemap")
	case strings.HasPrefix(c, "for"):
		keys = append(keys, "for")
	}
	// names of source variables loaded in the head block
	for _, in := range h.Instrs {
		if u, ok := in.(*ssa.UnOp); ok && u.Op == token.MUL {
			if a, ok := u.X.(*ssa.Alloc); ok && a.Comment != "" {
				keys = append(keys, a.Comment)
			}
		}
	}
	// range loops: the ranged operand's name
	for b := range li.blocks {
		for _, in := range b.Instrs {
			if d, ok := in.(*ssa.DebugRef); ok {
				_ = d
			}
		}
	}
	return keys
}

// ---------------------------------------------------------------------------------------
// running a function body

func (c *FnCtx) runFunction(fr *Frame, entry *State) {
	fn := fr.fn
	loops := findLoops(fn)
	order := rpo(fn)
	in := map[*ssa.BasicBlock][]edgeState{}
	in[fn.Blocks[0]] = []edgeState{{entry, entry.pc}}

	// loop spec matching
	c.matchLoopSpecs(fr, loops)

	if c.modePaths && fr.depth == 0 {
		c.runPaths(fr, fn.Blocks[0], entry, loops, 0)
		return
	}

	for _, b := range order {
		if fn.Recover != nil && b == fn.Recover {
			continue
		}
		ins := in[b]
		if len(ins) == 0 {
			continue
		}
		st := c.mergeStates(ins)
		if os.Getenv("GOVC_DEBUG") != "" && fr.depth == 0 {
			fmt.Fprintf(os.Stderr, "block %d (%s): %d incoming, pc=%s\n", b.Index, b.Comment, len(ins), st.pc.S)
		}
		if st.pc.IsFalse() {
			if fr.depth == 0 && blockCovers() {
				c.deadBlocks = append(c.deadBlocks, b)
			}
			continue
		}
		if fr.depth == 0 && blockCovers() && c.inSpec == 0 && !selectPanicBlock(b) {
			// reachability cover per basic block (thorough tier / GOVC_BLOCK_COVERS): a block the
			// model cannot reach makes every clause checked in it vacuous
			saved := c.curInstr
			if len(b.Instrs) > 0 {
				c.curInstr = b.Instrs[0]
			}
			cv := c.addObl("vacuity", fmt.Sprintf("block:%d", b.Index), nil, st, TFalse, nil)
			cv.Kind = "cover"
			c.curInstr = saved
		}
		if li := loops[b]; li != nil {
			// invariant on entry
			c.loopEntry(fr, st, li)
		} else if li := innermostLoop(loops, b); li != nil && li.rangeAlloc != nil {
			// blocks are scheduled in one global order: a body block of an earlier loop may
			// run after a later loop was entered; `rangeindex` means the loop the block is in
			fr.curLoop = li
		}
		c.execBlock(fr, st, b, loops, in)
	}
}

// selectPanicBlock: the compiler-generated "blocking select matched no case" block.
func selectPanicBlock(b *ssa.BasicBlock) bool {
	if len(b.Instrs) == 0 {
		return false
	}
	p, ok := b.Instrs[len(b.Instrs)-1].(*ssa.Panic)
	if !ok {
		return false
	}
	if mi, ok := p.X.(*ssa.MakeInterface); ok {
		if k, ok := mi.X.(*ssa.Const); ok && k.Value != nil && strings.Contains(k.Value.ExactString(), "blocking select matched no case") {
			return true
		}
	}
	return false
}

// blockCovers: per-block reachability covers are generated in the thorough tier (and on demand).
func blockCovers() bool {
	return os.Getenv("GOVC_BLOCK_COVERS") != "" || govcTier == "thorough"
}

var govcTier string

func innermostLoop(loops map[*ssa.BasicBlock]*loopInfo, b *ssa.BasicBlock) *loopInfo {
	var best *loopInfo
	for _, li := range loops {
		if li.blocks[b] && (best == nil || len(li.blocks) < len(best.blocks) || (len(li.blocks) == len(best.blocks) && li.head.Index < best.head.Index)) {
			best = li
		}
	}
	return best
}

// runPaths explores the CFG path by path (no state merging): smaller, branch-free queries at
// the price of one obligation instance per path. Loop heads are still cut points.
func (c *FnCtx) runPaths(fr *Frame, b *ssa.BasicBlock, st *State, loops map[*ssa.BasicBlock]*loopInfo, depth int) {
	if depth > 400 {
		c.abstract("path exploration too deep")
		return
	}
	if li := loops[b]; li != nil {
		c.loopEntry(fr, st, li)
	}
	in := map[*ssa.BasicBlock][]edgeState{}
	c.execBlock(fr, st, b, loops, in)
	done := map[*ssa.BasicBlock]bool{}
	for _, succ := range b.Succs {
		if done[succ] {
			continue
		}
		done[succ] = true
		for _, es := range in[succ] {
			ns := es.st.clone()
			ns.pc = es.guard
			fr.pathPred = b
			c.runPaths(fr, succ, ns, loops, depth+1)
		}
	}
}

func (c *FnCtx) matchLoopSpecs(fr *Frame, loops map[*ssa.BasicBlock]*loopInfo) {
	if fr.contract == nil {
		return
	}
	var heads []*ssa.BasicBlock
	for h := range loops {
		heads = append(heads, h)
	}
	sort.Slice(heads, func(i, j int) bool { return heads[i].Index < heads[j].Index })
	counts := map[string]int{}
	for _, h := range heads {
		li := loops[h]
		keys := loopKeyOf(li)
		seen := map[string]bool{}
		for _, k := range keys {
			if seen[k] {
				continue
			}
			seen[k] = true
			counts[k]++
			for _, ls := range fr.contract.Loops {
				if ls.Key == k && counts[k] == 1 || ls.Key == fmt.Sprintf("%s#%d", k, counts[k]) {
					if li.spec == nil {
						li.spec = ls
						li.key = ls.Key
						ls.Used = true
					}
				}
			}
		}
		if li.key == "" && len(keys) > 0 {
			li.key = fmt.Sprintf("%s#%d", keys[0], counts[keys[0]])
		}
	}
	if fr.depth == 0 {
		for _, ls := range fr.contract.Loops {
			if !ls.Used {
				c.eng.errorf("%s: loop contract %q matches no loop", fr.contract.Name, ls.Key)
			}
		}
	}
}

func (c *FnCtx) bindLoopLets(fr *Frame, st *State, li *loopInfo) {
	if li.spec == nil || len(li.spec.Lets) == 0 {
		return
	}
	if fr.loopLets == nil {
		fr.loopLets = map[string]bound{}
	}
	env := c.specEnv(fr, st)
	for _, l := range li.spec.Lets {
		func() {
			defer func() {
				if r := recover(); r != nil {
					if se, ok := r.(specError); ok {
						c.eng.errorf("loop let %s: %s", l.Name, se.msg)
						return
					}
					panic(r)
				}
			}()
			v, t := env.eval(l.Expr)
			if k, ok := v.(Kv); ok {
				tm, ty := env.defaultConst(k)
				v, t = Sc{tm}, ty
			}
			fr.loopLets[l.Name] = bound{v, t}
		}()
	}
}

func (c *FnCtx) loopEntry(fr *Frame, st *State, li *loopInfo) {
	if li.rangeAlloc == nil {
		for _, in := range li.head.Instrs {
			if u, ok := in.(*ssa.UnOp); ok && u.Op == token.MUL {
				if a, ok := u.X.(*ssa.Alloc); ok && a.Comment == "rangeindex" {
					li.rangeAlloc = a
				}
			}
		}
	}
	fr.curLoop = li
	c.bindLoopLets(fr, st, li)
	env := c.specEnv(fr, st)
	if li.spec != nil && fr.depth == 0 {
		for i := range li.spec.Invs {
			inv := &li.spec.Invs[i]
			g := env.evalBool(inv.Expr)
			c.addObl("inv-entry", c.invLabel(li, inv, i), inv.Props, st, g, inv)
		}
	}
	ms := c.loopMods(fr, li)
	c.havoc(st, fr, ms, "loop "+li.key)
	c.havocGhostLocals(fr, st, li)
	if li.spec != nil && len(li.spec.Mods) > 0 {
		// interference: locations other threads may change between iterations
		tmp := &FuncContract{Pkg: fr.contract.Pkg, Name: fr.contract.Name, HasMods: true, Modifies: li.spec.Mods}
		c.noFrame++
		c.applyModifiesEnv(fr, st, c.specEnv(fr, st), tmp)
		c.noFrame--
	}
	c.bindLoopLets(fr, st, li)
	if li.rangeAlloc != nil {
		// the hidden index of a range loop is written by the loop header only (-1, then +1 per
		// iteration): it is never below -1
		k := cellKey{frame: fr.id, alloc: li.rangeAlloc}
		if v, ok := st.cells[k].(Sc); ok && v.T.Sort == SInt {
			st.pc = c.vc.Name("pc", And(st.pc, App(SBool, ">=", v.T, IntLit(-1))))
			// ... and it is the index of an element already visited: below the length the
			// header compares against (computed once, before the loop)
			for _, in := range li.head.Instrs {
				if b, ok := in.(*ssa.BinOp); ok && b.Op == token.LSS {
					if lv, ok := fr.regs[b.Y].(Sc); ok && lv.T.Sort == SInt && !li.blocks[instrBlock(b.Y)] {
						st.pc = c.vc.Name("pc", And(st.pc, Or(Eq(v.T, IntLit(-1)), App(SBool, "<", v.T, lv.T))))
					}
				}
			}
		}
	}
	if li.spec != nil {
		env = c.specEnv(fr, st)
		var assumed []Term
		for i := range li.spec.Invs {
			assumed = append(assumed, env.evalBool(li.spec.Invs[i].Expr))
		}
		st.pc = c.vc.Name("pc", And(append([]Term{st.pc}, assumed...)...))
		if li.spec.Variant != nil && fr.depth == 0 {
			// `loop KEY variant e`: the value of e at the head of an arbitrary iteration
			func() {
				defer c.recoverSpec(li.spec.Variant)
				v, t := env.eval(li.spec.Variant.Expr)
				tm, _ := env.scalar(v, t)
				if tm.Sort == SInt {
					nv := c.vc.Name("variant", tm)
					li.variant0 = &nv
				} else {
					c.eng.errorf("%s:%d: loop variant must be an integer expression", li.spec.Variant.File, li.spec.Variant.Line)
				}
			}()
		}
	}
}

func (c *FnCtx) invLabel(li *loopInfo, inv *Clause, i int) string {
	l := li.key
	if inv.Label != "" {
		l += ":" + inv.Label
	} else {
		l += fmt.Sprintf(":%d", i+1)
	}
	return l
}

func (c *FnCtx) loopBack(fr *Frame, st *State, li *loopInfo) {
	if li.spec == nil || fr.depth != 0 {
		return
	}
	fr.curLoop = li
	env := c.specEnv(fr, st)
	for i := range li.spec.Invs {
		inv := &li.spec.Invs[i]
		g := env.evalBool(inv.Expr)
		c.addObl("inv-pres", c.invLabel(li, inv, i), inv.Props, st, g, inv)
	}
	if li.spec.Variant != nil && li.variant0 != nil {
		// termination: on every way back to the loop head the variant is smaller than it was at
		// the head, and it was not negative there (well-founded on the naturals)
		func() {
			defer c.recoverSpec(li.spec.Variant)
			v, t := env.eval(li.spec.Variant.Expr)
			tm, _ := env.scalar(v, t)
			g := And(App(SBool, ">=", *li.variant0, IntLit(0)), App(SBool, "<", tm, *li.variant0))
			lbl := li.key
			if li.spec.Variant.Label != "" {
				lbl += ":" + li.spec.Variant.Label
			}
			c.addObl("variant", lbl, li.spec.Variant.Props, st, g, li.spec.Variant)
		}()
	}
}

func (c *FnCtx) execBlock(fr *Frame, st *State, b *ssa.BasicBlock, loops map[*ssa.BasicBlock]*loopInfo, in map[*ssa.BasicBlock][]edgeState) {
	addEdge := func(to *ssa.BasicBlock, s *State, cond Term) {
		g := And(s.pc, cond)
		if g.IsFalse() {
			return
		}
		if to.Dominates(b) {
			// back edge
			bs := s.clone()
			bs.pc = c.vc.Name("pc", g)
			if li := loops[to]; li != nil {
				c.loopBack(fr, bs, li)
			}
			return
		}
		gn := c.vc.Name("pc", g)
		fr.edgeGuards[[2]*ssa.BasicBlock{b, to}] = gn
		in[to] = append(in[to], edgeState{s, gn})
	}
	for _, instr := range b.Instrs {
		if st.pc.IsFalse() {
			return
		}
		switch x := instr.(type) {
		case *ssa.If:
			cond := c.term(fr, st, x.Cond)
			addEdge(b.Succs[0], st, cond)
			addEdge(b.Succs[1], st.clone(), Not(cond))
			return
		case *ssa.Jump:
			addEdge(b.Succs[0], st, TTrue)
			return
		case *ssa.Return:
			var res []SV
			for _, r := range x.Results {
				res = append(res, c.val(fr, st, r))
			}
			fr.rets = append(fr.rets, retState{st, res})
			return
		case *ssa.Panic:
			// `assert panic(x)#n: expr`: what must hold whenever this panic site is reached
			// (e.g. "not because the reactor was frozen")
			c.curFrame, c.curInstr = fr, instr
			c.callSiteAsserts(fr, st, instr)
			if fr.depth == 0 || true {
				if c.checks["panic"] || c.checks["all"] {
					c.addObl("safe:panic", "", nil, st, TFalse, nil)
				} else {
					c.assume("A-nopanic: explicit panic sites are not checked in this function")
				}
			}
			return
		default:
			c.execInstr(fr, st, instr)
		}
	}
}

func (c *FnCtx) cellLoad(fr *Frame, st *State, k cellKey) SV {
	if v, ok := st.cells[k]; ok {
		return v
	}
	et := k.alloc.Type().Underlying().(*types.Pointer).Elem()
	v := c.zeroValue(et)
	st.cells[k] = v
	return v
}

func (c *FnCtx) guardCheck(st *State, l *Loc) {
	if len(c.guards) == 0 || l == nil || c.inSpec > 0 {
		return
	}
	for _, g := range c.guards {
		if l.Idx.S != g.Obj.S || l.Idx2 != nil {
			continue
		}
		field := l.Prefix[strings.LastIndex(l.Prefix, ".")+1:]
		if g.Exempt[field] {
			continue
		}
		h := c.heapGet(st, "held$", SArr(SInt, SBool))
		if c.guardObls == nil {
			c.guardObls = map[string][]Term{}
		}
		c.guardObls[field] = append(c.guardObls[field], Implies(st.pc, Select(h, g.Mu, SBool)))
	}
}

// addrOf interprets a pointer-typed SSA value as something loadable/storable.
func (c *FnCtx) loadPtr(fr *Frame, st *State, p ssa.Value) SV {
	et := p.Type().Underlying().(*types.Pointer).Elem()
	pv := c.val(fr, st, p)
	switch x := pv.(type) {
	case Ad:
		if x.Cell != nil {
			return c.cellLoad(fr, st, *x.Cell)
		}
		c.derefCheck(st, x.Loc)
		c.guardCheck(st, x.Loc)
		return c.loadLoc(st, x.Loc)
	case Sc:
		if structOf(et) != nil {
			c.nilSafety(st, x.T)
			return c.loadStruct(st, et, x.T)
		}
		c.nilSafety(st, x.T)
		return c.loadLoc(st, &Loc{Prefix: "cell$" + typeKey(et), Idx: x.T, T: et})
	}
	c.abstract("load through unsupported pointer value")
	return c.freshValue(et, "ld")
}

func (c *FnCtx) derefCheck(st *State, l *Loc) {
	if l == nil {
		return
	}
	if strings.HasPrefix(l.Prefix, "global$") {
		return
	}
	if l.Idx2 == nil {
		c.nilSafety(st, l.Idx)
	}
}

func (c *FnCtx) storePtr(fr *Frame, st *State, p ssa.Value, v SV) {
	et := p.Type().Underlying().(*types.Pointer).Elem()
	pv := c.val(fr, st, p)
	switch x := pv.(type) {
	case Ad:
		if x.Cell != nil {
			st.cells[*x.Cell] = v
			return
		}
		c.derefCheck(st, x.Loc)
		c.guardCheck(st, x.Loc)
		c.escapeChan(st, v, et)
		c.storeLoc(st, x.Loc, v)
		return
	case Sc:
		c.nilSafety(st, x.T)
		if structOf(et) != nil {
			c.storeStruct(st, et, x.T, v)
			return
		}
		c.storeLoc(st, &Loc{Prefix: "cell$" + typeKey(et), Idx: x.T, T: et}, v)
		return
	}
	c.abstract("store through unsupported pointer value")
}

func (c *FnCtx) execInstr(fr *Frame, st *State, instr ssa.Instruction) {
	c.curFrame, c.curInstr = fr, instr
	switch x := instr.(type) {
	case *ssa.DebugRef:
		return
	case *ssa.Alloc:
		et := x.Type().Underlying().(*types.Pointer).Elem()
		if fr.direct[x] {
			k := cellKey{frame: fr.id, alloc: x}
			st.cells[k] = c.zeroValue(et)
			fr.regs[x] = Ad{Cell: &k}
			return
		}
		if s := structOf(et); s != nil {
			r := c.allocRef(st, "new$"+typeKey(et))
			c.zeroStruct(st, et, r)
			if typeKey(et) == "strings.Builder" {
				c.sbInit(st, r)
			}
			c.initEmbedded(st, et, r, 0)
			fr.regs[x] = Sc{r}
			return
		}
		if arr, ok := et.Underlying().(*types.Array); ok {
			r := c.allocRef(st, "arr")
			_ = arr
			fr.regs[x] = Sc{r}
			return
		}
		r := c.allocRef(st, "cell")
		loc := &Loc{Prefix: "cell$" + typeKey(et), Idx: r, T: et}
		c.storeLocNoFrame(st, loc, c.zeroValue(et))
		fr.regs[x] = Ad{Loc: loc}
	case *ssa.Store:
		c.storePtr(fr, st, x.Addr, c.val(fr, st, x.Val))
	case *ssa.UnOp:
		fr.regs[x] = c.unop(fr, st, x)
	case *ssa.BinOp:
		fr.regs[x] = c.binop(st, x.Op, c.val(fr, st, x.X), c.val(fr, st, x.Y), x.X.Type(), x.Type())
	case *ssa.Convert:
		fr.regs[x] = c.convert(st, c.val(fr, st, x.X), x.X.Type(), x.Type())
	case *ssa.ChangeType:
		fr.regs[x] = c.val(fr, st, x.X)
	case *ssa.ChangeInterface:
		fr.regs[x] = c.val(fr, st, x.X)
	case *ssa.MakeInterface:
		v := c.val(fr, st, x.X)
		t := x.X.Type()
		if _, isPtr := t.Underlying().(*types.Pointer); isPtr {
			// a pointer that travels on inside an interface value (e.g. in a ...any argument
			// list): a dependency receiving interface values may write through it
			c.escapedPtrs = append(c.escapedPtrs, escapedPtr{v, t})
		}
		c.escapeChan(st, v, t)
		fr.regs[x] = If{Tag: c.typeTag(t), ID: c.box(v, t), Static: v, StaticT: t}
	case *ssa.TypeAssert:
		fr.regs[x] = c.typeAssert(fr, st, x)
	case *ssa.Extract:
		tv := c.val(fr, st, x.Tuple)
		if tu, ok := tv.(Tu); ok && x.Index < len(tu.Elems) {
			fr.regs[x] = tu.Elems[x.Index]
		} else {
			c.abstract("extract from non-tuple")
			fr.regs[x] = c.freshValue(x.Type(), "ext")
		}
	case *ssa.Field:
		sv := c.val(fr, st, x.X)
		if s, ok := sv.(St); ok {
			fr.regs[x] = s.Fields[x.Field]
		} else {
			c.abstract("field of non-struct value")
			fr.regs[x] = c.freshValue(x.Type(), "fld")
		}
	case *ssa.FieldAddr:
		base := c.val(fr, st, x.X)
		stT := x.X.Type().Underlying().(*types.Pointer).Elem()
		ref, ok := base.(Sc)
		if !ok {
			c.abstract("FieldAddr on unsupported base")
			fr.regs[x] = c.freshValue(x.Type(), "fa")
			return
		}
		c.nilSafety(st, ref.T)
		loc := fieldLoc(stT, x.Field, ref.T)
		if structOf(loc.T) != nil {
			fr.regs[x] = Sc{c.subRef(loc)}
		} else {
			fr.regs[x] = Ad{Loc: loc}
		}
	case *ssa.IndexAddr:
		fr.regs[x] = c.indexAddr(fr, st, x)
	case *ssa.Index:
		fr.regs[x] = c.index(fr, st, x)
	case *ssa.Slice:
		fr.regs[x] = c.sliceOp(fr, st, x)
	case *ssa.MakeSlice:
		ln := c.term(fr, st, x.Len)
		cp := c.term(fr, st, x.Cap)
		c.safety("idx", st, And(App(SBool, "<=", IntLit(0), ln), App(SBool, "<=", ln, cp)))
		arr := c.allocRef(st, "mkslice")
		et := x.Type().Underlying().(*types.Slice).Elem()
		c.zeroArray(st, et, arr)
		fr.regs[x] = Sl{arr, IntLit(0), ln, cp}
	case *ssa.MakeMap:
		r := c.allocRef(st, "mkmap")
		c.mapInit(st, x.Type(), r)
		fr.regs[x] = Sc{r}
	case *ssa.MakeChan:
		r := c.allocRef(st, "mkchan")
		c.chanInit(st, r, c.term(fr, st, x.Size))
		fr.regs[x] = Sc{r}
	case *ssa.MakeClosure:
		f := x.Fn.(*ssa.Function)
		var free []SV
		for _, b := range x.Bindings {
			free = append(free, c.val(fr, st, b))
		}
		fr.regs[x] = Fn{F: f, Free: free, CID: c.allocRef(st, "closure")}
	case *ssa.Phi:
		fr.regs[x] = c.phi(fr, st, x)
	case *ssa.Call:
		c.callSiteAsserts(fr, st, x)
		res := c.call(fr, st, x.Common(), x, false)
		if res != nil {
			fr.regs[x] = res
		}
		// ghost updates attached to this call (`after OPKEY: x = e`) in sequential functions
		if c.og != nil && c.og.inv == nil && fr.depth == 0 && c.inSpec == 0 {
			if key := c.opKeyOf(fr, x); key != "" {
				// opResult (single result) / opResult0, opResult1, ...: what the call returned
				results := map[string]SV{}
				resTypes := map[string]types.Type{}
				if tu, ok := res.(Tu); ok {
					rs := x.Common().Signature().Results()
					for i, el := range tu.Elems {
						if i < rs.Len() {
							results[fmt.Sprintf("opResult%d", i)] = el
							resTypes[fmt.Sprintf("opResult%d", i)] = rs.At(i).Type()
						}
					}
				} else if res != nil && x.Common().Signature().Results().Len() == 1 {
					results["opResult"] = res
					resTypes["opResult"] = x.Common().Signature().Results().At(0).Type()
				}
				// arg0, arg1, ...: the actual arguments of the call (as in call-site assertions)
				{
					cc := x.Common()
					k := 0
					if cc.IsInvoke() {
						results["arg0"] = c.val(fr, st, cc.Value)
						resTypes["arg0"] = cc.Value.Type()
						k = 1
					}
					for j, a := range cc.Args {
						results[fmt.Sprintf("arg%d", j+k)] = c.val(fr, st, a)
						resTypes[fmt.Sprintf("arg%d", j+k)] = a.Type()
					}
				}
				c.ogResultTypes = resTypes
				c.ogApplyAfters(fr, st, key, TTrue, results)
				c.ogResultTypes = nil
			}
		}
	case *ssa.Defer:
		st.armed[x] = TTrue
		// remember argument values at defer time
		var args []SV
		for _, a := range x.Call.Args {
			args = append(args, c.val(fr, st, a))
		}
		fr.deferArgs[x] = args
		if _, isB := x.Call.Value.(*ssa.Builtin); !isB {
			fr.deferFn[x] = c.val(fr, st, x.Call.Value)
		}
	case *ssa.RunDefers:
		c.runDefers(fr, st)
	case *ssa.Go:
		c.goStmt(fr, st, x)
	case *ssa.MapUpdate:
		c.mapUpdate(fr, st, x)
	case *ssa.Lookup:
		fr.regs[x] = c.lookup(fr, st, x)
	case *ssa.Range:
		fr.regs[x] = c.rangeInit(fr, st, x)
	case *ssa.Next:
		fr.regs[x] = c.rangeNext(fr, st, x)
	case *ssa.Send:
		c.chanSend(fr, st, x)
	case *ssa.Select:
		fr.regs[x] = c.selectOp(fr, st, x)
	case *ssa.SliceToArrayPointer, *ssa.MultiConvert:
		c.abstract(fmt.Sprintf("unsupported instruction %T", instr))
		if v, ok := instr.(ssa.Value); ok {
			fr.regs[v] = c.freshValue(v.Type(), "unsup")
		}
	default:
		c.abstract(fmt.Sprintf("unsupported instruction %T", instr))
		if v, ok := instr.(ssa.Value); ok {
			fr.regs[v] = c.freshValue(v.Type(), "unsup")
		}
	}
}

func (c *FnCtx) storeLocNoFrame(st *State, loc *Loc, v SV) {
	c.noFrame++
	c.storeLoc(st, loc, v)
	c.noFrame--
}

func (c *FnCtx) zeroStruct(st *State, t types.Type, ref Term) {
	c.noFrame++
	c.storeStruct(st, t, ref, c.zeroValue(t))
	c.noFrame--
}

// zeroArray: a freshly made array holds zero values. Expressed as a constant-array store for
// scalar element types.
func (c *FnCtx) zeroArray(st *State, et types.Type, arr Term) {
	s := c.scalarSort(et)
	if s == "" {
		return // compound elements: left unconstrained (conservative)
	}
	name := "elem$" + typeKey(et)
	hs := c.heapSort(s, true)
	h := c.heapGet(st, name, hs)
	z := c.zeroTerm(s)
	ca := Term{fmt.Sprintf("((as const %s) %s)", SArr(SInt, s), z.S), SArr(SInt, s)}
	c.heapSet(st, name, c.vc.Name("h", Store(h, arr, ca)))
}

func (c *FnCtx) phi(fr *Frame, st *State, x *ssa.Phi) SV {
	// Phi nodes appear only for && / || and conditional expressions in NaiveForm. The
	// incoming edge is identified by which predecessor's path condition holds; we recorded
	// edge guards in order of predecessors at merge time.
	b := x.Block()
	var out SV
	if c.modePaths && fr.depth == 0 && fr.pathPred != nil {
		for i, p := range b.Preds {
			if p == fr.pathPred {
				return c.val(fr, st, x.Edges[i])
			}
		}
	}
	for i := len(b.Preds) - 1; i >= 0; i-- {
		pv := x.Edges[i]
		// a value defined in a block that was never executed cannot be selected
		if in, ok := pv.(ssa.Instruction); ok {
			if _, have := fr.regs[pv]; !have {
				_ = in
				continue
			}
		}
		v := c.val(fr, st, pv)
		g := fr.edgeGuards[[2]*ssa.BasicBlock{b.Preds[i], b}]
		if out == nil {
			out = v
		} else if g.Valid() {
			out = c.mergeSV(g, v, out)
		} else {
			c.abstract("phi without recorded edge guard")
		}
	}
	if out == nil {
		out = c.freshValue(x.Type(), "phi")
	}
	return out
}

// initEmbedded: zero values of library objects embedded by value that have an abstract model
// (an empty sync.Map).
func (c *FnCtx) initEmbedded(st *State, t types.Type, ref Term, depth int) {
	s := structOf(t)
	if s == nil || depth > 3 {
		return
	}
	for i := 0; i < s.NumFields(); i++ {
		ft := s.Field(i).Type()
		if structOf(ft) == nil {
			continue
		}
		sub := c.subRef(fieldLoc(t, i, ref))
		if typeKey(ft) == "sync.Map" {
			domS := SArr(SInt, SArr(SInt, SBool))
			h := c.heapGet(st, "smap$dom", domS)
			empty := Term{"((as const (Array Int Bool)) false)", SArr(SInt, SBool)}
			c.heapSet(st, "smap$dom", c.vc.Name("h", Store(h, sub, empty)))
			hc := c.heapGet(st, "smap$card", SArr(SInt, SInt))
			c.heapSet(st, "smap$card", c.vc.Name("h", Store(hc, sub, IntLit(0))))
			continue
		}
		if typeKey(ft) == "strings.Builder" {
			c.sbInit(st, sub)
			continue
		}
		c.initEmbedded(st, ft, sub, depth+1)
	}
}

// havocGhostLocals: function-local ghosts assigned by an `after` hook of an operation inside
// the loop are unknown at the loop head (like any other variable assigned in the loop).
func (c *FnCtx) havocGhostLocals(fr *Frame, st *State, li *loopInfo) {
	if c.og == nil || fr.depth != 0 {
		return
	}
	assigned := map[string]bool{}
	mark := func(in ssa.Instruction, key string) {
		if in.Block() == nil || !li.blocks[in.Block()] {
			return
		}
		for _, a := range c.og.afters[key] {
			assigned[a.Name] = true
		}
	}
	for in, key := range c.og.keys {
		mark(in, key)
	}
	for sel, keys := range c.og.caseKey {
		for _, k := range keys {
			mark(sel, k)
		}
	}
	var names []string
	for n := range assigned {
		names = append(names, n)
	}
	sort.Strings(names)
	for _, n := range names {
		if l, ok := c.og.locals[n]; ok {
			st.cells[l.key] = c.freshValue(l.Type, "hv$ghost$"+n)
		}
	}
}

func instrBlock(v ssa.Value) *ssa.BasicBlock {
	if in, ok := v.(ssa.Instruction); ok {
		return in.Block()
	}
	return nil
}
