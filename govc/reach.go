package main

import (
	"fmt"
	"go/types"
	"sort"
	"strings"

	"golang.org/x/tools/go/callgraph"
	"golang.org/x/tools/go/callgraph/cha"
	"golang.org/x/tools/go/ssa"
)

// Structural obligations decided by a call-graph scan instead of a solver.
//
//   attr noreach pkg.F,pkg.G
//
// on a function's contract states that F and G are reachable from the function *only* through
// the call instructions that appear directly in its own body: no callee (however deep, through
// static calls, closures, goroutines or interface dispatch resolved by class-hierarchy analysis
// over the module) calls them. This is what lets a contract treat a stage function as opaque
// (`modifies *`) and still keep ghost state that only F and G move.

func (e *Engine) callGraph() *callgraph.Graph {
	if e.cg == nil {
		e.cg = cha.CallGraph(e.prog)
	}
	return e.cg
}

func (e *Engine) funcByShortName(name string) *ssa.Function {
	for _, f := range e.funcs {
		if e.shortFuncName(f) == name {
			return f
		}
	}
	return nil
}

// reachableFromCallees: functions reachable from the callees of fn (excluding fn's own direct
// edges to the targets).
func (e *Engine) noReach(fn *ssa.Function, targets []string) []*OblResult {
	cg := e.callGraph()
	var out []*OblResult
	tset := map[*ssa.Function]string{}
	for _, t := range targets {
		t = strings.TrimSpace(t)
		f := e.funcByShortName(t)
		if f == nil {
			out = append(out, &OblResult{Name: e.shortFuncName(fn) + "/reach:" + t, Class: "reach", Func: e.funcKey(fn), Kind: "prove", Status: "undecided",
				Solve: SolveResult{Status: "unknown", Winner: "callgraph-scan", Answers: []SolverAnswer{{Solver: "callgraph-scan", Status: "error", Raw: "target function not found"}}}})
			continue
		}
		tset[f] = t
	}
	node := cg.Nodes[fn]
	seen := map[*callgraph.Node]bool{}
	via := map[*ssa.Function]string{}
	var stack []*callgraph.Node
	start := func(n *callgraph.Node, from string) {
		if n == nil || seen[n] {
			return
		}
		seen[n] = true
		if _, ok := via[n.Func]; !ok {
			via[n.Func] = from
		}
		stack = append(stack, n)
	}
	if node != nil {
		for _, edge := range node.Out {
			if _, isTarget := tset[edge.Callee.Func]; isTarget {
				continue // direct call in fn's own body: modelled by the contract
			}
			start(edge.Callee, e.shortFuncName(fn))
		}
		// closures defined in fn run as part of it or as goroutines: include them
		for _, an := range fn.AnonFuncs {
			start(cg.Nodes[an], e.shortFuncName(fn))
		}
	}
	for len(stack) > 0 {
		n := stack[len(stack)-1]
		stack = stack[:len(stack)-1]
		for _, edge := range n.Out {
			if !seen[edge.Callee] {
				via[edge.Callee.Func] = n.Func.String()
			}
			start(edge.Callee, n.Func.String())
		}
	}
	var names []string
	for f := range tset {
		names = append(names, tset[f])
	}
	sort.Strings(names)
	for _, name := range names {
		var tf *ssa.Function
		for f, n := range tset {
			if n == name {
				tf = f
			}
		}
		r := &OblResult{Name: e.shortFuncName(fn) + "/reach:" + name, Class: "reach", Func: e.funcKey(fn), Kind: "prove",
			Clause: "no callee of " + e.shortFuncName(fn) + " reaches " + name + " (only the direct calls in its body do)"}
		n := cg.Nodes[tf]
		if n != nil && seen[n] {
			r.Status = "refuted"
			r.Solve = SolveResult{Status: "sat", Winner: "callgraph-scan", Model: []string{fmt.Sprintf("%s is reachable via %s", name, via[tf])}}
		} else {
			r.Status = "discharged"
			r.Solve = SolveResult{Status: "unsat", Winner: "callgraph-scan"}
		}
		out = append(out, r)
	}
	return out
}

// `attr deterministic`: the function (and every module function it can reach through static
// calls and closures) contains no source of nondeterminism at the Go level: no range over a
// map, no select, no goroutine start, no clock / random source. Together with the assumption
// that the library functions it calls are functions of their arguments this makes its result
// a function of its inputs.
func (e *Engine) deterministic(fn *ssa.Function) *OblResult {
	r := &OblResult{Name: e.shortFuncName(fn) + "/deterministic", Class: "deterministic", Func: e.funcKey(fn), Kind: "prove",
		Clause: "no map iteration, select, goroutine, clock or random source in " + e.shortFuncName(fn) + " or the module functions it calls",
		Status: "discharged", Solve: SolveResult{Status: "unsat", Winner: "ssa-scan"}}
	seen := map[*ssa.Function]bool{}
	var offend string
	var walk func(f *ssa.Function, depth int)
	walk = func(f *ssa.Function, depth int) {
		if f == nil || seen[f] || offend != "" || depth > 12 {
			return
		}
		seen[f] = true
		for _, b := range f.Blocks {
			for _, in := range b.Instrs {
				switch x := in.(type) {
				case *ssa.Range:
					if _, ok := x.X.Type().Underlying().(*types.Map); ok {
						offend = fmt.Sprintf("range over a map in %s (%s)", e.shortFuncName(f), e.fset.Position(x.Pos()))
						return
					}
				case *ssa.Select:
					offend = fmt.Sprintf("select in %s", e.shortFuncName(f))
					return
				case *ssa.Go:
					offend = fmt.Sprintf("goroutine started in %s", e.shortFuncName(f))
					return
				case *ssa.MakeClosure:
					walk(x.Fn.(*ssa.Function), depth+1)
				case ssa.CallInstruction:
					callee := x.Common().StaticCallee()
					if callee == nil {
						continue
					}
					full := callee.String()
					if strings.HasPrefix(full, "time.Now") || strings.HasPrefix(full, "math/rand") || strings.HasPrefix(full, "crypto/rand") || strings.HasPrefix(full, "maps.Keys") || strings.HasPrefix(full, "maps.Values") {
						offend = fmt.Sprintf("call to %s in %s", full, e.shortFuncName(f))
						return
					}
					if e.inModule(callee) && callee.Blocks != nil {
						if h := e.externHandler(callee); h != nil {
							continue // logging etc.
						}
						walk(callee, depth+1)
					}
				}
			}
		}
	}
	walk(fn, 0)
	if offend != "" {
		r.Status = "refuted"
		r.Solve = SolveResult{Status: "sat", Winner: "ssa-scan", Model: []string{offend}}
	}
	return r
}
