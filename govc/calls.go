package main

import (
	"go/token"
	"fmt"
	"go/ast"
	"go/types"
	"sort"
	"strings"

	"golang.org/x/tools/go/ssa"
)

const maxInlineDepth = 8

func (c *FnCtx) call(fr *Frame, st *State, cc *ssa.CallCommon, site ssa.Instruction, deferred bool) SV {
	var args []SV
	for i, a := range cc.Args {
		v := c.val(fr, st, a)
		args = append(args, v)
		c.escapeChan(st, v, a.Type())
		// a package-level regular expression compiled once from a constant pattern (never
		// reassigned): whatever happened to the heap model since entry, it still is that one
		if u, ok := a.(*ssa.UnOp); ok && u.Op == token.MUL {
			if g, ok := u.X.(*ssa.Global); ok {
				if f, ok := c.eng.regexGlobals[g]; ok {
					if sv, ok := v.(Sc); ok {
						c.assertRegexFacts(sv.T, f)
					}
				}
			}
		}
		_ = i
	}
	var fnv SV
	if _, isB := cc.Value.(*ssa.Builtin); !isB {
		fnv = c.val(fr, st, cc.Value)
	}
	return c.callWith(fr, st, cc, fnv, args, site)
}

func (c *FnCtx) resultType(cc *ssa.CallCommon) types.Type {
	sig := cc.Signature()
	switch sig.Results().Len() {
	case 0:
		return nil
	case 1:
		return sig.Results().At(0).Type()
	}
	return sig.Results()
}

func (c *FnCtx) callWith(fr *Frame, st *State, cc *ssa.CallCommon, fnv SV, args []SV, site ssa.Instruction) SV {
	if b, ok := cc.Value.(*ssa.Builtin); ok {
		return c.builtin(fr, st, b, cc, args, site)
	}
	if cc.IsInvoke() {
		recv := fnv
		// statically known concrete receiver?
		if iv, ok := recv.(If); ok && iv.Static != nil && iv.StaticT != nil {
			if m := c.eng.prog.LookupMethod(iv.StaticT, cc.Method.Pkg(), cc.Method.Name()); m != nil {
				return c.callStatic(fr, st, m, append([]SV{iv.Static}, args...), nil, "invoke")
			}
		}
		if ct := c.eng.ifaceContract(cc); ct != nil {
			return c.useContract(fr, st, ct, nil, cc.Signature(), cc.Method.Name(), append([]SV{recv}, args...), c.resultType(cc))
		}
		if h := c.eng.invokeHandler(cc); h != nil {
			return h.fn(c, st, append([]SV{recv}, args...), c.resultType(cc))
		}
		c.trusted["extern: interface method "+cc.Method.FullName()+" (result unconstrained, no effect on module state)"] = true
		return c.defaultResult(st, c.resultType(cc), cc.Method.Name())
	}
	if callee := cc.StaticCallee(); callee != nil {
		var free []SV
		if f, ok := fnv.(Fn); ok {
			free = f.Free
		}
		return c.callStatic(fr, st, callee, args, free, "call")
	}
	// dynamic call through a function-typed struct field or package variable with a contract
	if ct := c.eng.funcValueContract(cc.Value); ct != nil {
		return c.useContract(fr, st, ct, nil, cc.Signature(), ct.Name, args, c.resultType(cc))
	}
	// dynamic call through a function value
	if f, ok := fnv.(Fn); ok && f.F != nil {
		return c.callStatic(fr, st, f.F, args, f.Free, "closure")
	}
	c.abstract("call through unknown function value in " + fr.fn.Name() + " (all heaps havocked)")
	ms := newModSet()
	ms.all = true
	c.havoc(st, fr, ms, "unknown call")
	return c.defaultResult(st, c.resultType(cc), "dyn")
}

func (c *FnCtx) defaultResult(st *State, rt types.Type, name string) SV {
	if rt == nil {
		return nil
	}
	v := c.freshValue(rt, "r$"+name)
	c.assumeAllocatedSV(st, v, rt)
	return v
}

func (c *FnCtx) assumeAllocatedSV(st *State, v SV, t types.Type) {
	switch x := v.(type) {
	case Sc:
		switch t.Underlying().(type) {
		case *types.Pointer, *types.Map, *types.Chan:
			c.assumeAllocated(st, x.T)
		}
	case Sl:
		c.assumeAllocated(st, x.Arr)
	case Tu:
		if tu, ok := t.(*types.Tuple); ok {
			for i, e := range x.Elems {
				c.assumeAllocatedSV(st, e, tu.At(i).Type())
			}
		}
	}
}

func (c *FnCtx) callStatic(fr *Frame, st *State, callee *ssa.Function, args []SV, free []SV, how string) SV {
	var rt types.Type
	sig := callee.Signature
	switch sig.Results().Len() {
	case 0:
	case 1:
		rt = sig.Results().At(0).Type()
	default:
		rt = sig.Results()
	}
	if c.checks["extnil"] && sig.Recv() != nil && len(args) > 0 && c.inSpec == 0 && !c.eng.inModule(callee) {
		// a method of a dependency called on a pointer that came back from a dependency call
		// together with an error (whatever models the method: contract, handler or nothing)
		if _, isPtr := sig.Recv().Type().Underlying().(*types.Pointer); isPtr {
			if rv, ok := args[0].(Sc); ok {
				if when, tainted := c.extPtrs[rv.T.S]; tainted {
					c.safety("extnil", st, Implies(when, Not(Eq(rv.T, IntLit(0)))))
				}
			}
		}
	}
	if ct := c.eng.contractFor(callee); ct != nil && !ct.Inline && !(c.fn == callee && fr.depth == 0 && false) {
		return c.useContract(fr, st, ct, callee, sig, callee.Name(), args, rt)
	}
	if h := c.eng.externHandler(callee); h != nil {
		return h.fn(c, st, args, rt)
	}
	if c.eng.inModule(callee) && callee.Blocks != nil {
		// inline
		for _, f := range c.inlineStack {
			if f == callee {
				c.abstract("recursive call to " + callee.Name() + " without contract (havocked)")
				ms := newModSet()
				c.fnMods(callee, ms, 0)
				c.havoc(st, fr, ms, "recursion")
				return c.defaultResult(st, rt, callee.Name())
			}
		}
		// only small, loop-free helpers are inlined implicitly; anything bigger without a
		// contract is abstracted: result unconstrained, everything its body can write havocked
		if ct := c.eng.contractFor(callee); (ct == nil || !ct.Inline) && !smallEnough(callee, len(c.inlineStack)) {
			c.abstract("call to " + c.eng.shortFuncName(callee) + " abstracted (no contract, too large to inline): result unconstrained, its write set havocked")
			ms := newModSet()
			c.fnMods(callee, ms, 0)
			c.havoc(st, fr, ms, "auto-abstracted call")
			return c.defaultResult(st, rt, callee.Name())
		}
		if len(c.inlineStack) >= maxInlineDepth {
			c.abstract("inline depth exceeded at " + callee.Name() + " (havocked)")
			ms := newModSet()
			c.fnMods(callee, ms, 0)
			c.havoc(st, fr, ms, "depth")
			return c.defaultResult(st, rt, callee.Name())
		}
		return c.inline(fr, st, callee, args, free)
	}
	// dependency without contract or handler
	full := callee.String()
	if c.eng.isPureExtern(full) {
		return c.pureResult(st, callee, args, rt)
	}
	if modelledLibType(callee) {
		// a method of a library type whose state the engine models (sync.Map, strings.Builder,
		// mutexes, atomics ...) but for which it has no model: nothing is known afterwards
		c.abstract("unmodelled method " + full + " of a modelled library type: all heaps havocked")
		ms := newModSet()
		ms.all = true
		c.havoc(st, fr, ms, "unmodelled "+full)
		return c.defaultResult(st, rt, callee.Name())
	}
	c.trusted["extern: "+full+" (result unconstrained, no effect on module state)"] = true
	// may write through pointer/slice arguments
	ms := newModSet()
	for i, a := range args {
		var at types.Type
		if sig.Recv() != nil {
			if i == 0 {
				at = sig.Recv().Type()
			} else if i-1 < sig.Params().Len() {
				at = sig.Params().At(i - 1).Type()
			}
		} else if i < sig.Params().Len() {
			at = sig.Params().At(i).Type()
		}
		if at == nil {
			continue
		}
		if sl, ok := at.Underlying().(*types.Slice); ok {
			if sv, isSl := a.(Sl); isSl && structOf(sl.Elem()) == nil {
				// the dependency may write the backing array it was handed, nothing else
				prefix := "elem$" + typeKey(sl.Elem())
				c.noFrame++
				for _, lf := range c.leaves(sl.Elem()) {
					name := prefix + lf.Suffix
					h := c.heapGet(st, name, c.heapSort(lf.Sort, true))
					c.heapSet(st, name, c.vc.Name("h", Store(h, sv.Arr, c.vc.Fresh("ext$elems", SArr(SInt, lf.Sort)))))
				}
				c.noFrame--
			} else {
				c.addLoc(ms, "elem$"+typeKey(sl.Elem()), sl.Elem(), true, 0)
			}
		}
		if p, ok := at.Underlying().(*types.Pointer); ok && structOf(p.Elem()) == nil {
			c.addLoc(ms, "cell$"+typeKey(p.Elem()), p.Elem(), false, 0)
		}
		if p, ok := at.Underlying().(*types.Pointer); ok && structOf(p.Elem()) != nil {
			// an object handed to a dependency by pointer may be written by it
			if ref, ok := a.(Sc); ok {
				c.noFrame++
				c.havocObject(st, p.Elem(), ref.T, 0)
				c.noFrame--
			}
		}
		if sl, ok := at.Underlying().(*types.Slice); ok {
			if _, isIface := sl.Elem().Underlying().(*types.Interface); isIface {
				// ...any argument list: every pointer boxed into an interface so far may be among
				// the elements (rows.Scan(&x), fmt.Sscan(&x), ...)
				c.havocEscaped(st, ms)
			}
		}
		if _, isIface := at.Underlying().(*types.Interface); isIface {
			// a pointer travelling inside an interface value (json Decode(v any), Unmarshal(..., &x)):
			// the dependency may write what it points to
			if iv, ok := a.(If); ok && iv.StaticT != nil {
				if p, ok := iv.StaticT.Underlying().(*types.Pointer); ok {
					switch sv := iv.Static.(type) {
					case Sc:
						if structOf(p.Elem()) != nil {
							c.noFrame++
							c.havocObject(st, p.Elem(), sv.T, 0)
							c.noFrame--
						} else {
							c.addLoc(ms, "cell$"+typeKey(p.Elem()), p.Elem(), false, 0)
						}
					case Ad:
						if sv.Cell != nil {
							st.cells[*sv.Cell] = c.freshValue(p.Elem(), "ext$cell")
						} else if sv.Loc != nil {
							c.noFrame++
							c.havocLoc(st, sv.Loc, 0)
							c.noFrame--
						}
					}
				}
			}
		}
	}
	if len(ms.heaps) > 0 {
		c.havoc(st, fr, ms, "extern "+full)
	}
	res := c.defaultResult(st, rt, callee.Name())
	c.markExtResult(res, rt)
	return res
}

func (c *FnCtx) pureResult(st *State, callee *ssa.Function, args []SV, rt types.Type) SV {
	if rt == nil {
		return nil
	}
	var ts []Term
	ok := true
	for _, a := range args {
		switch x := a.(type) {
		case Sc:
			ts = append(ts, x.T)
		case Sl:
			ts = append(ts, x.Arr, x.Off, x.Len)
		case If:
			ts = append(ts, x.Tag, x.ID)
		default:
			ok = false
		}
	}
	c.trusted["extern-pure: "+callee.String()+" (deterministic function of its arguments)"] = true
	if !ok {
		return c.defaultResult(st, rt, callee.Name())
	}
	// case conversion of a literal is computed (so that ToLower("x-mpegURL") is the literal it is)
	if len(args) == 1 && (callee.String() == "strings.ToLower" || callee.String() == "strings.ToUpper") {
		if a, isSc := args[0].(Sc); isSc {
			if txt, known := c.strLitText[a.T.S]; known {
				if callee.String() == "strings.ToLower" {
					return Sc{c.strLit(strings.ToLower(txt))}
				}
				return Sc{c.strLit(strings.ToUpper(txt))}
			}
		}
	}
	mk := func(t types.Type, suffix string) SV {
		if s := c.scalarSort(t); s != "" {
			tm := c.uf("ext$"+callee.String()+suffix, s, ts...)
			if s == SInt {
				c.vc.Assert(c.typeRange(tm, t))
			}
			if p, ok := t.Underlying().(*types.Pointer); ok && structOf(p.Elem()) == nil {
				return Ad{Loc: &Loc{Prefix: "cell$" + typeKey(p.Elem()), Idx: tm, T: p.Elem()}}
			}
			return Sc{tm}
		}
		if _, ok := t.Underlying().(*types.Interface); ok {
			tag := c.uf("ext$"+callee.String()+suffix+"$tag", SInt, ts...)
			id := c.uf("ext$"+callee.String()+suffix+"$id", SInt, ts...)
			c.vc.Assert(App(SBool, ">=", tag, IntLit(0)))
			return If{Tag: tag, ID: id}
		}
		return c.freshValue(t, "r$"+callee.Name())
	}
	if tu, ok := rt.(*types.Tuple); ok {
		out := Tu{}
		for i := 0; i < tu.Len(); i++ {
			out.Elems = append(out.Elems, mk(tu.At(i).Type(), fmt.Sprintf("#%d", i)))
		}
		return out
	}
	return mk(rt, "")
}

// inline executes the callee's body in a new frame and merges its return states.
func (c *FnCtx) inline(fr *Frame, st *State, callee *ssa.Function, args []SV, free []SV) SV {
	nf := c.newFrame(callee, fr.depth+1)
	nf.free = free
	nf.contract = nil
	for i, p := range callee.Params {
		if i < len(args) {
			nf.regs[p] = args[i]
		}
	}
	c.inlineStack = append(c.inlineStack, callee)
	c.runFunction(nf, st.clone())
	c.inlineStack = c.inlineStack[:len(c.inlineStack)-1]
	if len(nf.rets) == 0 {
		st.pc = TFalse
		return c.defaultResultNoAssume(callee)
	}
	// put results into synthetic cells so that mergeStates merges them too
	var ins []edgeState
	for _, r := range nf.rets {
		for i, v := range r.res {
			r.st.cells[cellKey{frame: nf.id, idx: i + 1}] = v
		}
		ins = append(ins, edgeState{r.st, r.st.pc})
	}
	m := c.mergeStates(ins)
	nres := callee.Signature.Results().Len()
	var res []SV
	for i := 0; i < nres; i++ {
		k := cellKey{frame: nf.id, idx: i + 1}
		res = append(res, m.cells[k])
		delete(m.cells, k)
	}
	// drop the callee's private cells
	for k := range m.cells {
		if k.frame == nf.id {
			delete(m.cells, k)
		}
	}
	*st = *m
	switch nres {
	case 0:
		return nil
	case 1:
		return res[0]
	}
	return Tu{Elems: res}
}

func (c *FnCtx) defaultResultNoAssume(callee *ssa.Function) SV {
	sig := callee.Signature
	switch sig.Results().Len() {
	case 0:
		return nil
	case 1:
		return c.zeroValue(sig.Results().At(0).Type())
	}
	out := Tu{}
	for i := 0; i < sig.Results().Len(); i++ {
		out.Elems = append(out.Elems, c.zeroValue(sig.Results().At(i).Type()))
	}
	return out
}

// ---------------------------------------------------------------------------------------
// using a callee's contract

func (c *FnCtx) contractEnv(fr *Frame, st *State, old *State, ct *FuncContract, callee *ssa.Function, sig *types.Signature, args []SV) *SpecEnv {
	e := &SpecEnv{c: c, st: st, old: old, fr: nil, vars: map[string]bound{}, ct: ct}
	e.pkg = c.eng.typesPkg(ct.Pkg)
	i := 0
	if sig.Recv() != nil {
		name := sig.Recv().Name()
		if name == "" || name == "_" {
			name = "recv"
		}
		if callee != nil && len(callee.Params) > 0 {
			name = callee.Params[0].Name()
		}
		if i < len(args) {
			e.vars[name] = bound{args[i], sig.Recv().Type()}
			e.vars["recv"] = bound{args[i], sig.Recv().Type()}
		}
		i++
	} else if callee == nil && len(args) == sig.Params().Len()+1 {
		// interface method: receiver first
		e.vars["recv"] = bound{args[0], nil}
		i++
	}
	for k := 0; k < sig.Params().Len(); k++ {
		p := sig.Params().At(k)
		name := p.Name()
		if callee != nil && i < len(callee.Params) {
			name = callee.Params[i].Name()
		}
		if name == "" || name == "_" {
			name = fmt.Sprintf("arg%d", k)
		}
		if i < len(args) {
			e.vars[name] = bound{args[i], p.Type()}
			e.vars[fmt.Sprintf("arg%d", k)] = bound{args[i], p.Type()}
		}
		i++
	}
	return e
}

func (c *FnCtx) bindResults(e *SpecEnv, sig *types.Signature, res SV) {
	n := sig.Results().Len()
	if n == 0 {
		return
	}
	if n == 1 {
		e.vars["result"] = bound{res, sig.Results().At(0).Type()}
		if nm := sig.Results().At(0).Name(); nm != "" && nm != "_" {
			e.vars[nm] = bound{res, sig.Results().At(0).Type()}
		}
		e.vars["result0"] = e.vars["result"]
		return
	}
	tu, ok := res.(Tu)
	if !ok {
		return
	}
	for i := 0; i < n; i++ {
		b := bound{tu.Elems[i], sig.Results().At(i).Type()}
		e.vars[fmt.Sprintf("result%d", i)] = b
		if nm := sig.Results().At(i).Name(); nm != "" && nm != "_" {
			e.vars[nm] = b
		}
	}
	e.vars["result"] = e.vars["result0"]
}

func (c *FnCtx) useContract(fr *Frame, st *State, ct *FuncContract, callee *ssa.Function, sig *types.Signature, name string, args []SV, rt types.Type) SV {
	if ct.Trusted {
		c.trusted["contract(assumed): "+ct.Pkg+"."+ct.Name] = true
	} else if ct.Opaque {
		c.trusted["contract(assumed, module function not verified): "+ct.Pkg+"."+ct.Name] = true
	} else {
		c.usedContracts[ct.Pkg+"::"+ct.Name] = true
	}
	pre := c.contractEnv(fr, st, st, ct, callee, sig, args)
	pre.bindLetsAt(ct, st)
	for i := range ct.Requires {
		r := &ct.Requires[i]
		g := c.safeEvalBool(pre, r)
		if c.inSpec == 0 {
			lbl := name
			if r.Label != "" {
				lbl += ":" + r.Label
			}
			if c.assumedPre(fr, lbl) {
				// `attr assume-pre Callee:label`: a nil-safety precondition that depends on the
				// caller's history is taken as an assumption of this function (listed in evidence)
				c.trusted["assumed precondition (attr assume-pre, not proved at the call): "+lbl+" in "+fr.fn.Name()] = true
			} else {
				c.addObl("pre@"+lbl, "", r.Props, st, g, r)
			}
		}
		st.pc = c.vc.Name("pc", And(st.pc, g))
	}
	old := st.clone()
	// havoc what the callee may modify
	c.applyModifiesEnv(fr, st, pre, ct)
	// the callee may allocate: allocation only grows
	{
		ms := newModSet()
		ms.heaps["alloc"] = SInt
		c.havoc(st, fr, ms, "callee allocation")
	}
	var res SV
	if rt != nil {
		res = c.freshValue(rt, "r$"+name)
		c.assumeAllocatedSV(st, res, rt)
	}
	if ct.Trusted && res != nil && c.inSpec == 0 {
		// results of a dependency described by a trusted contract are dependency results too
		// (safety kind extnil)
		c.markExtResult(res, rt)
		c.trustedCalls[name]++
		c.watchValue(fmt.Sprintf("ret %s#%d", name, c.trustedCalls[name]), res)
	}
	post := c.contractEnv(fr, st, old, ct, callee, sig, args)
	c.callSites++
	post.callSite = c.callSites
	for k, v := range pre.vars {
		if _, ok := post.vars[k]; !ok {
			post.vars[k] = v
		}
	}
	c.bindResults(post, sig, res)
	var facts []Term
	for i := range ct.Ensures {
		facts = append(facts, c.evalEnsuresAtCall(post, &ct.Ensures[i], callee))
	}
	st.pc = c.vc.Name("pc", And(append([]Term{st.pc}, facts...)...))
	if fr.depth == 0 && c.inSpec == 0 && blockCovers() && len(facts) > 0 {
		// thorough tier: the callee's contract leaves an execution (a contradictory or
		// over-strong assumed postcondition would make the rest of the path vacuous)
		tmp := &State{pc: st.pc}
		cv := c.addObl("vacuity", "returns:"+name, nil, tmp, TFalse, nil)
		cv.Kind = "cover"
	}
	return res
}

// evalEnsuresAtCall: a postcondition that names a local variable of the callee speaks about
// the callee's internal state; it is verified in the callee but gives callers nothing (skipped,
// which only weakens what the caller may assume).
func (c *FnCtx) evalEnsuresAtCall(e *SpecEnv, cl *Clause, callee *ssa.Function) (t Term) {
	defer func() {
		if r := recover(); r != nil {
			if se, ok := r.(specError); ok {
				const pfx = "unknown identifier "
				if callee != nil && strings.HasPrefix(se.msg, pfx) && calleeHasLocal(callee, strings.TrimPrefix(se.msg, pfx)) {
					t = TTrue
					return
				}
				if e.ct != nil && strings.HasPrefix(se.msg, pfx) {
					// a ghost local of the callee's contract (thread-local bookkeeping)
					for _, l := range e.ct.Locals {
						if l.Name == strings.TrimPrefix(se.msg, pfx) {
							t = TTrue
							return
						}
					}
				}
				c.eng.errorf("%s:%d: clause %q: %s", cl.File, cl.Line, cl.Text, se.msg)
				t = TTrue
				return
			}
			panic(r)
		}
	}()
	return e.evalBool(cl.Expr)
}

func calleeHasLocal(fn *ssa.Function, name string) bool {
	for _, b := range fn.Blocks {
		for _, in := range b.Instrs {
			if a, ok := in.(*ssa.Alloc); ok && a.Comment == name {
				return true
			}
		}
	}
	return false
}

func (e *SpecEnv) bindLetsAt(ct *FuncContract, at *State) {
	for _, l := range ct.Lets {
		oe := *e
		oe.st = at
		v, t := oe.eval(l.Expr)
		e.vars[l.Name] = bound{v, t}
	}
}

func (c *FnCtx) safeEvalBool(e *SpecEnv, cl *Clause) (t Term) {
	defer func() {
		if r := recover(); r != nil {
			if se, ok := r.(specError); ok {
				c.eng.errorf("%s:%d: clause %q: %s", cl.File, cl.Line, cl.Text, se.msg)
				t = TTrue
				return
			}
			panic(r)
		}
	}()
	return e.evalBool(cl.Expr)
}

// applyModifies havocs the locations named in the callee's modifies clause.
func (c *FnCtx) applyModifiesEnv(fr *Frame, st *State, env0 *SpecEnv, ct *FuncContract) {
	// every location is evaluated in the pre-state, whatever the order of the entries
	envCopy := *env0
	envCopy.st = st.clone()
	env := &envCopy
	if !ct.HasMods {
		ms := newModSet()
		ms.all = true
		c.havoc(st, fr, ms, "callee without modifies")
		c.noteWholeWrite(st, "*")
		return
	}
	for i := range ct.Modifies {
		m := &ct.Modifies[i]
		switch {
		case m.Text == "*" || strings.HasPrefix(m.Text, "*!"):
			ms := newModSet()
			ms.all = true
			if strings.HasPrefix(m.Text, "*!") {
				ms.except = strings.Split(strings.TrimPrefix(m.Text, "*!"), "!")
			}
			c.havoc(st, fr, ms, "modifies "+m.Text)
			c.noteWholeWrite(st, "*")
		case m.Text == "atomic(*)":
			// every atomic location (value and ghost contribution counters)
			ms := newModSet()
			ms.atomics = true
			for name, srt := range c.heapNames {
				if strings.HasPrefix(name, "atomicval$") {
					ms.heaps[name] = srt
				}
			}
			c.havoc(st, fr, ms, "modifies atomic(*)")
		case m.Expr == nil && strings.HasSuffix(m.Text, ".*"):
			// all fields of one object
			x, err := parseSpecExpr(strings.TrimSuffix(m.Text, ".*"))
			if err != nil {
				c.eng.errorf("%s:%d: %v", m.File, m.Line, err)
				continue
			}
			func() {
				defer c.recoverSpec(m)
				v, t := env.eval(x)
				ref, _ := env.scalar(v, t)
				c.havocObject(st, derefType(t), ref, 0)
			}()
		case m.Expr == nil && strings.Contains(m.Text, "::"):
			names, ok := c.modHeapNames(ct, m)
			if !ok {
				ms := newModSet()
				ms.all = true
				c.havoc(st, fr, ms, "modifies ?")
				continue
			}
			ms := newModSet()
			for n, s := range names {
				ms.heaps[n] = s
				c.noteWholeWrite(st, n)
			}
			c.havoc(st, fr, ms, "modifies "+m.Text)
		default:
			func() {
				defer c.recoverSpec(m)
				if call, ok := m.Expr.(*ast.CallExpr); ok {
					if id, ok := call.Fun.(*ast.Ident); ok && id.Name == "atomic" && len(call.Args) == 1 {
						c.havocAtomic(st, env, call.Args[0])
						return
					}
					if id, ok := call.Fun.(*ast.Ident); ok && id.Name == "mapof" && len(call.Args) == 1 {
						c.havocMap(st, env, call.Args[0])
						return
					}
					if id, ok := call.Fun.(*ast.Ident); ok && id.Name == "elems" && len(call.Args) == 1 {
						c.havocElems(st, env, call.Args[0])
						return
					}
					if id, ok := call.Fun.(*ast.Ident); ok && id.Name == "effects" && len(call.Args) == 1 {
						v, _ := env.eval(call.Args[0])
						ms := newModSet()
						if f, ok := v.(Fn); ok && f.F != nil {
							c.fnMods(f.F, ms, 1)
						} else {
							ms.all = true
						}
						c.havoc(st, fr, ms, "modifies "+m.Text)
						return
					}
				}
				loc := env.evalLoc(m.Expr)
				c.havocLoc(st, loc, 0)
			}()
		}
	}
}

// havocElems: `modifies elems(s)`: the backing array of slice s.
func (c *FnCtx) havocElems(st *State, env *SpecEnv, x ast.Expr) {
	v, t := env.eval(x)
	sl, ok := v.(Sl)
	slT, ok2 := t.Underlying().(*types.Slice)
	if !ok || !ok2 {
		env.fail("elems(): not a slice")
	}
	et := slT.Elem()
	prefix := "elem$" + typeKey(et)
	for _, lf := range c.leaves(et) {
		name := prefix + lf.Suffix
		h := c.heapGet(st, name, c.heapSort(lf.Sort, true))
		c.heapSet(st, name, c.vc.Name("h", Store(h, sl.Arr, c.vc.Fresh("mod$elems", SArr(SInt, lf.Sort)))))
		c.noteWrite(st, name, &Loc{Prefix: prefix, Idx: sl.Arr, T: et})
	}
}

// havocMap: `modifies mapof(m)`: the contents of one map object.
func (c *FnCtx) havocMap(st *State, env *SpecEnv, x ast.Expr) {
	v, t := env.eval(x)
	m, ok := t.Underlying().(*types.Map)
	if !ok {
		env.fail("map(): not a map")
	}
	ref, _ := env.scalar(v, t)
	for name, srt := range c.mapHeapNames(m) {
		h := c.heapGet(st, name, srt)
		var inner Sort
		if name == "maplen" {
			inner = SInt
		} else {
			// (Array Int X) -> X
			inner = Sort(strings.TrimSuffix(strings.TrimPrefix(string(srt), "(Array Int "), ")"))
		}
		fv := c.vc.Fresh("mod$map", inner)
		if name == "maplen" {
			c.vc.Assert(App(SBool, ">=", fv, IntLit(0)))
		}
		c.heapSet(st, name, c.vc.Name("h", Store(h, ref, fv)))
		c.noteWrite(st, name, &Loc{Prefix: name, Idx: ref})
	}
}

// havocAtomic: `modifies atomic(x)`: the callee performs atomic actions on x.
func (c *FnCtx) havocAtomic(st *State, env *SpecEnv, x ast.Expr) {
	loc := env.evalLoc(x)
	var t *atomicTarget
	var ok bool
	if structOf(loc.T) != nil {
		t, ok = c.atomicTargetOf(Sc{c.subRef(loc)}, loc.T)
	} else {
		t, ok = c.atomicTargetOf(Ad{Loc: loc}, nil)
	}
	if !ok {
		env.fail("atomic(): not an atomic location")
	}
	v := c.vc.Fresh("mod$atomic", t.sort)
	if t.sort == SInt {
		c.vc.Assert(c.typeRange(v, t.typ))
	}
	c.atomicWrite(st, t, v)
	for _, g := range []struct {
		n string
		s Sort
	}{{"atomic$adds$", t.sort}, {"atomic$stores$", SInt}, {"atomic$ops$", SInt}} {
		h := c.heapGet(st, g.n+t.family, SArr(SInt, g.s))
		c.heapSet(st, g.n+t.family, c.vc.Name("g", Store(h, t.idx, c.vc.Fresh("mod$ghost", g.s))))
	}
}

func (c *FnCtx) recoverSpec(m *Clause) {
	if r := recover(); r != nil {
		if se, ok := r.(specError); ok {
			c.eng.errorf("%s:%d: modifies %q: %s", m.File, m.Line, m.Text, se.msg)
			return
		}
		panic(r)
	}
}

func (c *FnCtx) havocLoc(st *State, loc *Loc, depth int) {
	if structOf(loc.T) != nil {
		c.havocObject(st, loc.T, c.subRef(loc), depth+1)
		return
	}
	if loc.Idx2 != nil && loc.Idx2.Sort != SInt {
		c.storeLocKeyed(st, loc, c.freshValue(loc.T, "mod"))
		return
	}
	c.storeLoc(st, loc, c.freshValue(loc.T, "mod"))
}

func (c *FnCtx) havocObject(st *State, t types.Type, ref Term, depth int) {
	s := structOf(t)
	if s == nil || depth > 4 {
		return
	}
	for i := 0; i < s.NumFields(); i++ {
		c.havocLoc(st, fieldLoc(t, i, ref), depth)
	}
}

// modHeapNames resolves `T::f` (whole-field) modifies entries to heap names.
func (c *FnCtx) modHeapNames(ct *FuncContract, m *Clause) (map[string]Sort, bool) {
	out := map[string]Sort{}
	if m.Expr != nil || !strings.Contains(m.Text, "::") {
		// a specific location: conservatively the whole heaps of its leaves
		if m.Expr == nil {
			return nil, false
		}
		names := c.eng.locHeapNames(c, ct, m)
		if names == nil {
			return nil, false
		}
		return names, true
	}
	parts := strings.SplitN(m.Text, "::", 2)
	tn, fn := strings.TrimSpace(parts[0]), strings.TrimSpace(parts[1])
	switch tn {
	case "elem":
		// whole element heap of one element type: `elem::*Item`
		t := c.eng.specType(c.eng.typesPkg(ct.Pkg), fn)
		if t == nil {
			return nil, false
		}
		ms := newModSet()
		c.addLoc(ms, "elem$"+typeKey(t), t, true, 0)
		return ms.heaps, true
	case "ghost":
		g := c.eng.ghost(c.eng.typesPkg(ct.Pkg), fn)
		if g == nil {
			return nil, false
		}
		t := c.eng.specType(c.eng.typesPkg(ct.Pkg), g.Type)
		out["ghost$"+g.Pkg+"."+g.Name] = SArr(SInt, c.specSort(t))
		return out, true
	case "chan":
		ms := newModSet()
		c.addChanHeaps(ms)
		return ms.heaps, true
	}
	t := c.eng.specType(c.eng.typesPkg(ct.Pkg), tn)
	if t == nil {
		return nil, false
	}
	t = derefType(t)
	s := structOf(t)
	if s == nil {
		return nil, false
	}
	ms := newModSet()
	if fn == "*" {
		c.addStructFields(ms, t, 0)
		return ms.heaps, true
	}
	if strings.HasPrefix(fn, "*!") {
		// `T::*!f!g`: every field of T except f and g
		c.addStructFields(ms, t, 0)
		for _, ex := range strings.Split(fn[2:], "!") {
			ex = strings.TrimSpace(ex)
			found := false
			for i := 0; i < s.NumFields(); i++ {
				if s.Field(i).Name() == ex {
					found = true
				}
			}
			if !found {
				return nil, false
			}
			pre := fieldPrefix(t, ex)
			for n := range ms.heaps {
				if n == pre || strings.HasPrefix(n, pre+"$") {
					delete(ms.heaps, n)
				}
			}
		}
		return ms.heaps, true
	}
	for i := 0; i < s.NumFields(); i++ {
		if s.Field(i).Name() == fn {
			c.addLoc(ms, fieldPrefix(t, fn), s.Field(i).Type(), false, 0)
			return ms.heaps, true
		}
	}
	return nil, false
}

// ---------------------------------------------------------------------------------------
// frame conditions

func (c *FnCtx) noteWrite(st *State, heapName string, loc *Loc) {
	if c.noFrame > 0 || c.frameSpec == nil || c.inSpec > 0 {
		return
	}
	allowed := c.frameSpec.allows(c, st, heapName, loc)
	if allowed.IsTrue() {
		return
	}
	c.frameWrites[heapName] = append(c.frameWrites[heapName], Implies(st.pc, allowed))
}

func (c *FnCtx) noteWholeWrite(st *State, heapName string) {
	if c.noFrame > 0 || c.frameSpec == nil || c.inSpec > 0 {
		return
	}
	if c.frameSpec.all || c.frameSpec.whole[heapName] {
		return
	}
	c.frameWrites[heapName] = append(c.frameWrites[heapName], Implies(st.pc, TFalse))
}

type frameSpec struct {
	all   bool
	whole map[string]bool  // heap names that may be modified anywhere
	locs  map[string][]Loc // heap name -> allowed specific locations (evaluated at entry)
	objs  []Term           // objects all of whose fields may be modified
}

func (fs *frameSpec) allows(c *FnCtx, st *State, heapName string, loc *Loc) Term {
	if fs.all || fs.whole[heapName] {
		return TTrue
	}
	if heapName == "alloc" || strings.HasPrefix(heapName, "iter$") || heapName == "maplen" {
		return TTrue
	}
	var alts []Term
	// freshly allocated objects may always be written
	al0 := c.allocInit()
	base := loc.Idx
	if root, ok := c.subRoots[base.S]; ok {
		base = root
	}
	alts = append(alts, App(SBool, ">=", base, al0))
	for _, l := range fs.locs[heapName] {
		if (l.Idx2 == nil) != (loc.Idx2 == nil) {
			alts = append(alts, Eq(l.Idx, loc.Idx))
			continue
		}
		if l.Idx2 != nil {
			alts = append(alts, And(Eq(l.Idx, loc.Idx), Eq(*l.Idx2, *loc.Idx2)))
		} else {
			alts = append(alts, Eq(l.Idx, loc.Idx))
		}
	}
	for _, o := range fs.objs {
		alts = append(alts, Eq(o, base))
	}
	return Or(alts...)
}

// buildFrameSpec evaluates the function's own modifies clause at entry.
func (c *FnCtx) buildFrameSpec(fr *Frame, st *State) {
	ct := fr.contract
	if ct == nil || !ct.HasMods {
		return
	}
	fs := &frameSpec{whole: map[string]bool{}, locs: map[string][]Loc{}}
	env := c.specEnv(fr, st)
	env.useCells = false
	for i := range ct.Modifies {
		m := &ct.Modifies[i]
		switch {
		case m.Text == "*" || strings.HasPrefix(m.Text, "*!"):
			fs.all = true
		case m.Text == "atomic(*)":
		case m.Expr == nil && strings.HasSuffix(m.Text, ".*"):
			x, err := parseSpecExpr(strings.TrimSuffix(m.Text, ".*"))
			if err != nil {
				c.eng.errorf("%s:%d: %v", m.File, m.Line, err)
				continue
			}
			func() {
				defer c.recoverSpec(m)
				v, t := env.eval(x)
				ref, _ := env.scalar(v, t)
				fs.objs = append(fs.objs, ref)
			}()
		case m.Expr == nil:
			names, ok := c.modHeapNames(ct, m)
			if !ok {
				c.eng.errorf("%s:%d: cannot resolve modifies %q", m.File, m.Line, m.Text)
				continue
			}
			for n := range names {
				fs.whole[n] = true
			}
		default:
			func() {
				defer c.recoverSpec(m)
				if call, ok := m.Expr.(*ast.CallExpr); ok {
					if id, ok := call.Fun.(*ast.Ident); ok && id.Name == "atomic" && len(call.Args) == 1 {
						loc := env.evalLoc(call.Args[0])
						if structOf(loc.T) == nil {
							for _, lf := range c.leaves(loc.T) {
								fs.locs[loc.Prefix+lf.Suffix] = append(fs.locs[loc.Prefix+lf.Suffix], *loc)
							}
						}
						return
					}
					if id, ok := call.Fun.(*ast.Ident); ok && id.Name == "elems" && len(call.Args) == 1 {
						v, t := env.eval(call.Args[0])
						if sl, ok := v.(Sl); ok {
							if slT, ok := t.Underlying().(*types.Slice); ok {
								prefix := "elem$" + typeKey(slT.Elem())
								for _, lf := range c.leaves(slT.Elem()) {
									fs.locs[prefix+lf.Suffix] = append(fs.locs[prefix+lf.Suffix], Loc{Prefix: prefix, Idx: sl.Arr})
								}
							}
						}
						return
					}
					if id, ok := call.Fun.(*ast.Ident); ok && id.Name == "mapof" && len(call.Args) == 1 {
						v, t := env.eval(call.Args[0])
						if m, ok := t.Underlying().(*types.Map); ok {
							ref, _ := env.scalar(v, t)
							for name := range c.mapHeapNames(m) {
								fs.locs[name] = append(fs.locs[name], Loc{Prefix: name, Idx: ref})
							}
						}
						return
					}
				}
				loc := env.evalLoc(m.Expr)
				if structOf(loc.T) != nil {
					fs.objs = append(fs.objs, c.subRef(loc))
					return
				}
				for _, lf := range c.leaves(loc.T) {
					fs.locs[loc.Prefix+lf.Suffix] = append(fs.locs[loc.Prefix+lf.Suffix], *loc)
				}
			}()
		}
	}
	c.frameSpec = fs
}

func (c *FnCtx) emitFrameObligations(st0 *State) {
	var names []string
	for n := range c.frameWrites {
		names = append(names, n)
	}
	sort.Strings(names)
	for _, n := range names {
		goal := And(c.frameWrites[n]...)
		tmp := &State{pc: TTrue}
		o := c.addObl("frame", n, nil, tmp, goal, nil)
		o.Note = "every write to " + n + " is covered by the modifies clause (or hits a freshly allocated object)"
	}
}

// ---------------------------------------------------------------------------------------
// ghost variables

func (c *FnCtx) ghostRead(st *State, g *GhostDef) SV {
	t := c.eng.specType(c.eng.typesPkg(g.Pkg), g.Type)
	s := c.specSort(t)
	h := c.heapGet(st, "ghost$"+g.Pkg+"."+g.Name, SArr(SInt, s))
	return Sc{Select(h, IntLit(0), s)}
}

// ---------------------------------------------------------------------------------------
// defers, go

func (c *FnCtx) runDefers(fr *Frame, st *State) {
	// collect defers of this function in reverse order of appearance (approximation of LIFO
	// that is exact when defers are not inside loops)
	var ds []*ssa.Defer
	for _, b := range fr.fn.Blocks {
		for _, in := range b.Instrs {
			if d, ok := in.(*ssa.Defer); ok {
				ds = append(ds, d)
			}
		}
	}
	sort.SliceStable(ds, func(i, j int) bool { return ds[i].Pos() > ds[j].Pos() })
	for _, d := range ds {
		armed, ok := st.armed[d]
		if !ok || armed.IsFalse() {
			continue
		}
		args := fr.deferArgs[d]
		if args == nil && len(d.Call.Args) > 0 {
			continue
		}
		run := st.clone()
		run.pc = c.vc.Name("pc", And(st.pc, armed))
		var fnv SV
		if v, ok := fr.deferFn[d]; ok {
			fnv = v
		}
		c.callWith(fr, run, &d.Call, fnv, args, d)
		if armed.IsTrue() {
			pc := run.pc
			*st = *run
			st.pc = pc
		} else {
			skip := st.clone()
			skip.pc = c.vc.Name("pc", And(st.pc, Not(armed)))
			m := c.mergeStates([]edgeState{{run, run.pc}, {skip, skip.pc}})
			*st = *m
		}
		st.armed[d] = TFalse
	}
}

func (c *FnCtx) goStmt(fr *Frame, st *State, x *ssa.Go) {
	name := "?"
	if f := x.Call.StaticCallee(); f != nil {
		name = f.String()
	} else if mc, ok := x.Call.Value.(*ssa.MakeClosure); ok {
		name = mc.Fn.String()
	}
	c.events = append(c.events, "spawn "+name)
	c.spawns = append(c.spawns, name)
	for _, a := range x.Call.Args {
		c.escapeChan(st, c.val(fr, st, a), a.Type())
	}
}

// ---------------------------------------------------------------------------------------
// builtins

func (c *FnCtx) builtin(fr *Frame, st *State, b *ssa.Builtin, cc *ssa.CallCommon, args []SV, site ssa.Instruction) SV {
	switch b.Name() {
	case "len":
		switch x := args[0].(type) {
		case Sl:
			return Sc{c.coerceInt(x.Len, types.Typ[types.Int])}
		case Sc:
			t := cc.Args[0].Type().Underlying()
			switch t.(type) {
			case *types.Basic:
				return Sc{c.coerceInt(c.strLen(x.T), types.Typ[types.Int])}
			case *types.Map:
				c.mapLenWitness(st, t.(*types.Map), x.T)
				return Sc{c.coerceInt(c.mapLen(st, x.T), types.Typ[types.Int])}
			case *types.Chan:
				l := c.chanField(st, "chan$len", SInt, x.T)
				return Sc{c.coerceInt(l, types.Typ[types.Int])}
			case *types.Pointer:
				if arr, ok := t.(*types.Pointer).Elem().Underlying().(*types.Array); ok {
					return Sc{c.coerceInt(IntLit(arr.Len()), types.Typ[types.Int])}
				}
			}
		}
	case "cap":
		switch x := args[0].(type) {
		case Sl:
			return Sc{c.coerceInt(x.Cap, types.Typ[types.Int])}
		case Sc:
			if _, ok := cc.Args[0].Type().Underlying().(*types.Chan); ok {
				return Sc{c.coerceInt(c.chanField(st, "chan$cap", SInt, x.T), types.Typ[types.Int])}
			}
		}
	case "append":
		return c.appendOp(fr, st, cc, args)
	case "copy":
		dst, ok1 := args[0].(Sl)
		if !ok1 {
			break
		}
		var srcLen Term
		switch s := args[1].(type) {
		case Sl:
			srcLen = s.Len
		case Sc:
			srcLen = c.strLen(s.T)
		}
		n := c.vc.Name("cp", Ite(App(SBool, "<=", dst.Len, srcLen), dst.Len, srcLen))
		et := cc.Args[0].Type().Underlying().(*types.Slice).Elem()
		c.copyElems(st, et, dst, args[1], n)
		return Sc{c.coerceInt(n, types.Typ[types.Int])}
	case "delete":
		m := cc.Args[0].Type().Underlying().(*types.Map)
		ref := args[0].(Sc).T
		key, ks := c.mapKeyTerm(m, args[1])
		c.mapDelete(st, m, ref, key, ks)
		return nil
	case "close":
		c.doClose(fr, st, args[0].(Sc).T, site)
		return nil
	case "print", "println":
		return nil
	case "recover":
		return If{Tag: c.vc.Fresh("rec$tag", SInt), ID: c.vc.Fresh("rec$id", SInt)}
	case "min", "max":
		if len(args) == 2 {
			a, ok1 := args[0].(Sc)
			bb, ok2 := args[1].(Sc)
			if ok1 && ok2 {
				op := token2cmp(b.Name() == "min", a.T.Sort, cc.Args[0].Type())
				if op != "" {
					return Sc{c.vc.Name("mm", Ite(App(SBool, op, a.T, bb.T), a.T, bb.T))}
				}
			}
		}
	case "ssa:wrapnilchk":
		return args[0]
	case "clear":
		c.abstract("builtin clear")
		return nil
	}
	if b.Name() == "ssa:deferstack" {
		return Sc{IntLit(0)}
	}
	c.abstract("unsupported builtin " + b.Name())
	rt := c.resultType(cc)
	if rt == nil {
		return nil
	}
	return c.freshValue(rt, "bi")
}

func token2cmp(isMin bool, s Sort, t types.Type) string {
	uns := false
	if b := basicOf(t); b != nil && b.Info()&types.IsInteger != 0 {
		uns = isUnsigned(b)
	}
	switch {
	case s == SInt || s == SReal:
		if isMin {
			return "<="
		}
		return ">="
	case s.IsBV() && uns:
		if isMin {
			return "bvule"
		}
		return "bvuge"
	case s.IsBV():
		if isMin {
			return "bvsle"
		}
		return "bvsge"
	case s.IsFP():
		if isMin {
			return "fp.leq"
		}
		return "fp.geq"
	}
	return ""
}

// appendOp models append(s, elems...) faithfully: in place when capacity allows, otherwise a
// freshly allocated array that copies the old elements.
func (c *FnCtx) appendOp(fr *Frame, st *State, cc *ssa.CallCommon, args []SV) SV {
	slT, ok := cc.Args[0].Type().Underlying().(*types.Slice)
	if !ok {
		c.abstract("append on non-slice")
		return c.freshValue(cc.Args[0].Type(), "app")
	}
	et := slT.Elem()
	s, ok := args[0].(Sl)
	if !ok {
		c.abstract("append: unsupported slice value")
		return c.freshValue(cc.Args[0].Type(), "app")
	}
	var addLen Term
	switch a := args[1].(type) {
	case Sl:
		addLen = a.Len
	case Sc:
		addLen = c.strLen(a.T) // append([]byte, string...)
	default:
		c.abstract("append: unsupported second argument")
		return c.freshValue(cc.Args[0].Type(), "app")
	}
	newLen := c.vc.Name("al", App(SInt, "+", s.Len, addLen))
	fits := App(SBool, "<=", newLen, s.Cap)
	// fresh array for the growing case
	narr := c.allocRef(st, "grow")
	ncap := c.vc.Fresh("ncap", SInt)
	c.vc.Assert(App(SBool, ">=", ncap, newLen))
	zero := Eq(addLen, IntLit(0))
	// Go: append with nothing to add returns the slice unchanged
	inPlace := Or(fits, zero)
	res := Sl{
		Arr: c.vc.Name("aa", Ite(inPlace, s.Arr, narr)),
		Off: c.vc.Name("ao", Ite(inPlace, s.Off, IntLit(0))),
		Len: newLen,
		Cap: c.vc.Name("ac", Ite(inPlace, s.Cap, ncap)),
	}
	sSort := c.scalarSort(et)
	if sSort == "" && len(c.leaves(et)) == 0 && structOf(et) == nil {
		c.abstract("append with unsupported element type " + et.String())
		return res
	}
	// element heaps: for each leaf family copy old elements (growing case) and write new ones
	c.appendElems(st, et, s, res, args[1], inPlace, addLen)
	return res
}

// appendElems updates the element heaps for an append: a fresh inner array `nw` described by
// quantified facts (old elements kept, new elements appended, everything else unchanged when
// the append happens in place).
func (c *FnCtx) appendElems(st *State, et types.Type, old Sl, res Sl, add SV, inPlace Term, addLen Term) {
	leaves := c.leaves(et)
	if structOf(et) != nil {
		c.abstract("append of struct elements (element fields unconstrained)")
		return
	}
	prefix := "elem$" + typeKey(et)
	for _, lf := range leaves {
		name := prefix + lf.Suffix
		hs := c.heapSort(lf.Sort, true)
		h := c.heapGet(st, name, hs)
		inner := SArr(SInt, lf.Sort)
		dstOld := Select(h, res.Arr, inner)
		nw := c.vc.Fresh("app$"+lf.Suffix, inner)
		srcArr := Select(h, old.Arr, inner)
		// 1. positions before the old length keep the old slice's elements
		dI := c.ixS(res.Off.S, "i")
		c.vc.Assert(Term{fmt.Sprintf("(forall ((i Int)) (! (=> (and (<= 0 i) (< i %s)) (= (select %s %s) (select %s %s))) :pattern ((select %s %s))))",
			old.Len.S, nw.S, dI, srcArr.S, c.ixS(old.Off.S, "i"), nw.S, dI), SBool})
		// 2. appended elements
		dA := c.ixS(res.Off.S, "(+ "+old.Len.S+" i)")
		switch a := add.(type) {
		case Sl:
			addArr := Select(h, a.Arr, inner)
			c.vc.Assert(Term{fmt.Sprintf("(forall ((i Int)) (! (=> (and (<= 0 i) (< i %s)) (= (select %s %s) (select %s %s))) :pattern ((select %s %s))))",
				addLen.S, nw.S, dA, addArr.S, c.ixS(a.Off.S, "i"), addArr.S, c.ixS(a.Off.S, "i")), SBool})
			// the same fact indexed by destination position (trigger on the new array)
			c.vc.Assert(Term{fmt.Sprintf("(forall ((k Int)) (! (=> (and (<= %s k) (< k %s)) (= (select %s %s) (select %s %s))) :pattern ((select %s %s))))",
				old.Len.S, res.Len.S, nw.S, c.ixS(res.Off.S, "k"), addArr.S, c.ixS(a.Off.S, "(- k "+old.Len.S+")"), nw.S, c.ixS(res.Off.S, "k")), SBool})
		case Sc:
			if lf.Sort == SInt {
				sa := c.vc.Declare("strat", []Sort{SStr, SInt}, SInt)
				c.vc.Assert(Term{fmt.Sprintf("(forall ((k Int)) (! (=> (and (<= %s k) (< k %s)) (= (select %s %s) (%s %s (- k %s)))) :pattern ((select %s %s))))",
					old.Len.S, res.Len.S, nw.S, c.ixS(res.Off.S, "k"), sa, a.T.S, old.Len.S, nw.S, c.ixS(res.Off.S, "k")), SBool})
			}
		}
		// 3. in place: everything outside [off+oldLen, off+newLen) is unchanged
		c.vc.Assert(Implies(inPlace, Term{fmt.Sprintf("(forall ((j Int)) (! (=> (or (< j (+ %s %s)) (>= j (+ %s %s))) (= (select %s j) (select %s j))) :pattern ((select %s j))))",
			res.Off.S, old.Len.S, res.Off.S, res.Len.S, nw.S, dstOld.S, nw.S), SBool}))
		c.heapSet(st, name, c.vc.Name("h", Store(h, res.Arr, nw)))
		// an append of zero elements writes nothing (frame)
		stw := *st
		stw.pc = And(st.pc, App(SBool, ">", addLen, IntLit(0)))
		c.noteWrite(&stw, name, &Loc{Prefix: prefix, Idx: res.Arr, T: et})
	}
}

func (c *FnCtx) copyElems(st *State, et types.Type, dst Sl, src SV, n Term) {
	if structOf(et) != nil {
		c.abstract("copy of struct elements")
		return
	}
	prefix := "elem$" + typeKey(et)
	for _, lf := range c.leaves(et) {
		name := prefix + lf.Suffix
		hs := c.heapSort(lf.Sort, true)
		h := c.heapGet(st, name, hs)
		inner := SArr(SInt, lf.Sort)
		dstOld := Select(h, dst.Arr, inner)
		nw := c.vc.Fresh("cpy$"+lf.Suffix, inner)
		if s, ok := src.(Sl); ok {
			srcArr := Select(h, s.Arr, inner)
			c.vc.Assert(Term{fmt.Sprintf("(forall ((i Int)) (! (=> (and (<= 0 i) (< i %s)) (= (select %s %s) (select %s %s))) :pattern ((select %s %s))))",
				n.S, nw.S, c.ixS(dst.Off.S, "i"), srcArr.S, c.ixS(s.Off.S, "i"), nw.S, c.ixS(dst.Off.S, "i")), SBool})
		}
		c.vc.Assert(Term{fmt.Sprintf("(forall ((j Int)) (! (=> (or (< j %s) (>= j (+ %s %s))) (= (select %s j) (select %s j))) :pattern ((select %s j))))",
			dst.Off.S, dst.Off.S, n.S, nw.S, dstOld.S, nw.S), SBool})
		c.heapSet(st, name, c.vc.Name("h", Store(h, dst.Arr, nw)))
		c.noteWrite(st, name, &Loc{Prefix: prefix, Idx: dst.Arr, T: et})
	}
}

// smallEnough: implicit inlining is limited to short loop-free functions.
func smallEnough(fn *ssa.Function, depth int) bool {
	if depth >= 4 {
		return false
	}
	n := 0
	for _, b := range fn.Blocks {
		n += len(b.Instrs)
		for _, s := range b.Succs {
			if s.Dominates(b) {
				return false // loop
			}
		}
		for _, in := range b.Instrs {
			switch in.(type) {
			case *ssa.Select, *ssa.Go, *ssa.Defer:
				return false
			}
		}
	}
	return n <= 80
}

func (c *FnCtx) assumedPre(fr *Frame, lbl string) bool {
	if fr == nil || fr.contract == nil {
		return false
	}
	for _, a := range strings.Fields(strings.ReplaceAll(fr.contract.Attrs["assume-pre"], ",", " ")) {
		if a == lbl {
			return true
		}
	}
	return false
}

type escapedPtr struct {
	v SV
	t types.Type
}

func (c *FnCtx) havocEscaped(st *State, ms *loopModSet) {
	for _, ep := range c.escapedPtrs {
		p, ok := ep.t.Underlying().(*types.Pointer)
		if !ok {
			continue
		}
		switch sv := ep.v.(type) {
		case Sc:
			if structOf(p.Elem()) != nil {
				c.noFrame++
				c.havocObject(st, p.Elem(), sv.T, 0)
				c.noFrame--
			} else {
				c.addLoc(ms, "cell$"+typeKey(p.Elem()), p.Elem(), false, 0)
			}
		case Ad:
			if sv.Cell != nil {
				if _, live := st.cells[*sv.Cell]; live {
					st.cells[*sv.Cell] = c.freshValue(p.Elem(), "ext$cell")
				}
			} else if sv.Loc != nil {
				c.noFrame++
				c.havocLoc(st, sv.Loc, 0)
				c.noFrame--
			}
		}
	}
}

// modelledLibType: methods on library types that carry engine-modelled ghost state.
func modelledLibType(callee *ssa.Function) bool {
	sig := callee.Signature
	if sig == nil || sig.Recv() == nil {
		return false
	}
	switch typeKey(derefType(sig.Recv().Type())) {
	case "sync.Map", "strings.Builder", "sync.Mutex", "sync.RWMutex",
		"atomic.Int64", "atomic.Uint64", "atomic.Int32", "atomic.Uint32", "atomic.Bool", "atomic.Value", "atomic.Pointer":
		return true
	}
	return false
}
