package main

import (
	"fmt"
	"sync"
	"math"
	"math/big"
	"sort"
	"strings"
)

// Sort is an SMT-LIB sort, written out.
type Sort string

const (
	SInt  Sort = "Int"
	SBool Sort = "Bool"
	SReal Sort = "Real"
	SStr  Sort = "Str" // uninterpreted sort for Go strings
	SFP   Sort = "(_ FloatingPoint 11 53)"
	SFP32 Sort = "(_ FloatingPoint 8 24)"
)

func SBV(w int) Sort            { return Sort(fmt.Sprintf("(_ BitVec %d)", w)) }
func SArr(k, v Sort) Sort       { return Sort(fmt.Sprintf("(Array %s %s)", k, v)) }
func (s Sort) IsBV() bool       { return strings.HasPrefix(string(s), "(_ BitVec") }
func (s Sort) IsFP() bool       { return strings.HasPrefix(string(s), "(_ FloatingPoint") }
func (s Sort) IsArr() bool      { return strings.HasPrefix(string(s), "(Array") }
func (s Sort) BVWidth() int     { var w int; fmt.Sscanf(string(s), "(_ BitVec %d)", &w); return w }
func (s Sort) String() string   { return string(s) }

// Term is an SMT term with its sort.
type Term struct {
	S    string
	Sort Sort
}

var (
	TTrue  = Term{"true", SBool}
	TFalse = Term{"false", SBool}
)

func (t Term) IsTrue() bool  { return t.S == "true" }
func (t Term) IsFalse() bool { return t.S == "false" }
func (t Term) Valid() bool   { return t.S != "" }

func IntLit(n int64) Term {
	if n < 0 {
		return Term{fmt.Sprintf("(- %d)", -n), SInt}
	}
	return Term{fmt.Sprintf("%d", n), SInt}
}

func BigIntLit(n *big.Int) Term {
	if n.Sign() < 0 {
		return Term{"(- " + new(big.Int).Neg(n).String() + ")", SInt}
	}
	return Term{n.String(), SInt}
}

func BVLit(n *big.Int, w int) Term {
	m := new(big.Int).Set(n)
	if m.Sign() < 0 {
		mod := new(big.Int).Lsh(big.NewInt(1), uint(w))
		m.Add(m, mod)
	}
	return Term{fmt.Sprintf("(_ bv%s %d)", m.String(), w), SBV(w)}
}

func RealLit(r *big.Rat) Term {
	neg := r.Sign() < 0
	a := new(big.Rat).Abs(r)
	var s string
	if a.IsInt() {
		s = a.Num().String() + ".0"
	} else {
		s = fmt.Sprintf("(/ %s.0 %s.0)", a.Num().String(), a.Denom().String())
	}
	if neg {
		s = "(- " + s + ")"
	}
	return Term{s, SReal}
}

func FPLit(f float64) Term {
	b := math.Float64bits(f)
	sign := b >> 63
	exp := (b >> 52) & 0x7ff
	man := b & ((1 << 52) - 1)
	return Term{fmt.Sprintf("(fp #b%01b #b%011b #b%052b)", sign, exp, man), SFP}
}

func BoolLit(b bool) Term {
	if b {
		return TTrue
	}
	return TFalse
}

func App(sort Sort, op string, args ...Term) Term {
	var sb strings.Builder
	sb.WriteByte('(')
	sb.WriteString(op)
	for _, a := range args {
		sb.WriteByte(' ')
		sb.WriteString(a.S)
	}
	sb.WriteByte(')')
	return Term{sb.String(), sort}
}

func Not(a Term) Term {
	if a.IsTrue() {
		return TFalse
	}
	if a.IsFalse() {
		return TTrue
	}
	if strings.HasPrefix(a.S, "(not ") {
		return Term{a.S[5 : len(a.S)-1], SBool}
	}
	return App(SBool, "not", a)
}

func And(ts ...Term) Term {
	var keep []Term
	seen := map[string]bool{}
	for _, t := range ts {
		if t.IsFalse() {
			return TFalse
		}
		if t.IsTrue() || seen[t.S] {
			continue
		}
		seen[t.S] = true
		keep = append(keep, t)
	}
	switch len(keep) {
	case 0:
		return TTrue
	case 1:
		return keep[0]
	}
	return App(SBool, "and", keep...)
}

func Or(ts ...Term) Term {
	var keep []Term
	seen := map[string]bool{}
	for _, t := range ts {
		if t.IsTrue() {
			return TTrue
		}
		if t.IsFalse() || seen[t.S] {
			continue
		}
		seen[t.S] = true
		keep = append(keep, t)
	}
	switch len(keep) {
	case 0:
		return TFalse
	case 1:
		return keep[0]
	}
	return App(SBool, "or", keep...)
}

func Implies(a, b Term) Term {
	if a.IsTrue() {
		return b
	}
	if a.IsFalse() || b.IsTrue() {
		return TTrue
	}
	return App(SBool, "=>", a, b)
}

func Ite(c, a, b Term) Term {
	if c.IsTrue() {
		return a
	}
	if c.IsFalse() {
		return b
	}
	if a.S == b.S {
		return a
	}
	if a.Sort == SBool {
		if a.IsTrue() && b.IsFalse() {
			return c
		}
		if a.IsFalse() && b.IsTrue() {
			return Not(c)
		}
	}
	return App(a.Sort, "ite", c, a, b)
}

func Eq(a, b Term) Term {
	if a.S == b.S {
		return TTrue
	}
	if a.Sort.IsFP() {
		// Go == on floats is IEEE equality
		return App(SBool, "fp.eq", a, b)
	}
	return App(SBool, "=", a, b)
}

// activeVC lets the array peephole look through named store terms (functions are verified one
// at a time).
var activeVC *VC

// splitArgs splits the arguments of an application "(op a b c)".
func splitArgs(s string) []string {
	if len(s) < 2 || s[0] != '(' {
		return nil
	}
	var out []string
	depth := 0
	start := -1
	for i := 1; i < len(s)-1; i++ {
		c := s[i]
		switch {
		case c == '|':
			j := strings.IndexByte(s[i+1:], '|')
			if j < 0 {
				return nil
			}
			if depth == 0 && start < 0 {
				start = i
			}
			i += j + 1
			if depth == 0 && (i+1 >= len(s)-1 || s[i+1] == ' ') {
				out = append(out, s[start:i+1])
				start = -1
			}
		case c == '(':
			if depth == 0 && start < 0 {
				start = i
			}
			depth++
		case c == ')':
			depth--
			if depth == 0 {
				out = append(out, s[start:i+1])
				start = -1
			}
		case c == ' ':
			if depth == 0 && start >= 0 {
				out = append(out, s[start:i])
				start = -1
			}
		default:
			if depth == 0 && start < 0 {
				start = i
			}
		}
	}
	if start >= 0 {
		out = append(out, s[start:len(s)-1])
	}
	return out
}

func Select(arr, idx Term, elem Sort) Term {
	// peephole: select(store(a, i, v), i) = v, looking through named terms
	a := arr.S
	for k := 0; k < 4; k++ {
		if activeVC != nil {
			if d, ok := activeVC.nameDefs[a]; ok {
				a = d
			}
		}
		if !strings.HasPrefix(a, "(store ") {
			break
		}
		args := splitArgs(a)
		if len(args) != 4 {
			break
		}
		if args[2] == idx.S {
			return Term{args[3], elem}
		}
		// different integer literals: skip this store
		if isIntLit(args[2]) && isIntLit(idx.S) {
			a = args[1]
			continue
		}
		break
	}
	return App(elem, "select", arr, idx)
}

func isIntLit(s string) bool {
	if s == "" {
		return false
	}
	for _, c := range s {
		if c < '0' || c > '9' {
			return false
		}
	}
	return true
}
func Store(arr, idx, v Term) Term         { return App(arr.Sort, "store", arr, idx, v) }

// symbol quoting
func Sym(name string) string {
	ok := true
	for _, c := range name {
		if !(c >= 'a' && c <= 'z' || c >= 'A' && c <= 'Z' || c >= '0' && c <= '9' || c == '_' || c == '.' || c == '$' || c == '!' || c == '@' || c == '~') {
			ok = false
			break
		}
	}
	if ok && len(name) > 0 && !(name[0] >= '0' && name[0] <= '9') {
		return name
	}
	return "|" + strings.NewReplacer("|", "!", "\\", "!").Replace(name) + "|"
}

// VC accumulates declarations and definitional assertions for one function verification.
type VC struct {
	declOrder []string
	decls     map[string]string // symbol -> declaration line
	sorts     map[string]bool   // uninterpreted sorts used
	asserts   []string          // definitional equalities and axioms (conservative)
	n         int
	watch     []WatchTerm // terms whose model values are requested on sat
	noName    int
	quant     int
	qn        int
	infos     []assertInfo
	defOf     map[int]string
	mu        sync.Mutex
	seenAssert map[string]bool
	nameDefs  map[string]string
}

type WatchTerm struct {
	Name string
	T    Term
}

func NewVC() *VC {
	return &VC{decls: map[string]string{}, sorts: map[string]bool{}, defOf: map[int]string{}}
}

func (vc *VC) Declare(name string, args []Sort, res Sort) string {
	sym := Sym(name)
	if _, ok := vc.decls[sym]; ok {
		return sym
	}
	var as []string
	for _, a := range args {
		as = append(as, string(a))
	}
	vc.decls[sym] = fmt.Sprintf("(declare-fun %s (%s) %s)", sym, strings.Join(as, " "), res)
	vc.declOrder = append(vc.declOrder, sym)
	return sym
}

func (vc *VC) Const(name string, s Sort) Term {
	return Term{vc.Declare(name, nil, s), s}
}

func (vc *VC) Fresh(prefix string, s Sort) Term {
	if vc.quant > 0 {
		panic(specError{"a fresh constant (" + prefix + ") would be created inside a quantifier body; the construct is not supported there"})
	}
	vc.n++
	return vc.Const(fmt.Sprintf("%s!%d", prefix, vc.n), s)
}

// Name introduces a fresh constant equal to t (keeps terms small).
func (vc *VC) Name(prefix string, t Term) Term {
	if len(t.S) < 48 || vc.noName > 0 {
		return t
	}
	c := vc.Fresh(prefix, t.Sort)
	if vc.nameDefs == nil {
		vc.nameDefs = map[string]string{}
	}
	vc.nameDefs[c.S] = t.S
	vc.defOf[len(vc.asserts)] = c.S
	vc.asserts = append(vc.asserts, fmt.Sprintf("(assert (= %s %s))", c.S, t.S))
	return c
}

func (vc *VC) Assert(t Term) {
	if t.IsTrue() || vc.quant > 0 {
		// inside a quantifier body terms mention bound variables: side facts are dropped
		return
	}
	a := "(assert " + t.S + ")"
	if vc.seenAssert == nil {
		vc.seenAssert = map[string]bool{}
	}
	if vc.seenAssert[a] {
		return
	}
	vc.seenAssert[a] = true
	vc.asserts = append(vc.asserts, a)
}

// assertRaw adds an assertion even while a quantifier body is being built (global axioms).
func (vc *VC) assertRaw(a string) {
	if vc.seenAssert == nil {
		vc.seenAssert = map[string]bool{}
	}
	if vc.seenAssert[a] {
		return
	}
	vc.seenAssert[a] = true
	vc.asserts = append(vc.asserts, a)
}

func (vc *VC) Watch(name string, t Term) {
	for _, w := range vc.watch {
		if w.Name == name {
			return
		}
	}
	vc.watch = append(vc.watch, WatchTerm{name, t})
}

// symbolsOf extracts the identifiers of an SMT term text that are declared in this VC.
func (vc *VC) symbolsOf(text string, into map[string]bool) {
	i := 0
	n := len(text)
	for i < n {
		c := text[i]
		switch {
		case c == '|':
			j := i + 1
			for j < n && text[j] != '|' {
				j++
			}
			if j < n {
				sym := text[i : j+1]
				if _, ok := vc.decls[sym]; ok {
					into[sym] = true
				}
			}
			i = j + 1
		case c == '(' || c == ')' || c == ' ' || c == '\n' || c == '\t':
			i++
		default:
			j := i
			for j < n && text[j] != '(' && text[j] != ')' && text[j] != ' ' && text[j] != '\n' && text[j] != '|' {
				j++
			}
			sym := text[i:j]
			if _, ok := vc.decls[sym]; ok {
				into[sym] = true
			}
			i = j
		}
	}
}

type assertInfo struct {
	text string
	def  string          // defined symbol for definitional equalities, "" for facts
	syms map[string]bool // symbols mentioned
}

func (vc *VC) analyse() {
	for len(vc.infos) < len(vc.asserts) {
		a := vc.asserts[len(vc.infos)]
		ai := assertInfo{text: a, syms: map[string]bool{}}
		vc.symbolsOf(a, ai.syms)
		if d, ok := vc.defOf[len(vc.infos)]; ok {
			ai.def = d
		}
		vc.infos = append(vc.infos, ai)
	}
}

// isHub: symbols shared by almost everything (initial heaps, string functions); facts are
// not pulled in merely because they mention one of these.
func isHub(sym string) bool {
	s := strings.TrimPrefix(sym, "|")
	if len(s) > 1 && s[0] == 'H' && s[1] >= '0' && s[1] <= '9' {
		return true
	}
	switch s {
	case "strlen", "strat", "substr", "strcat", "ix":
		return true
	}
	return strings.HasPrefix(s, "tag$") || s == "subtag"
}

// Query renders an SMT-LIB script asking whether hyp ∧ ¬goal is satisfiable. Only the
// definitions and facts in the cone of influence of hyp and goal are included.
func (vc *VC) Query(hyp, goal Term, nAsserts int, wantModel bool) string {
	vc.mu.Lock()
	defer vc.mu.Unlock()
	vc.analyse()
	limit := len(vc.infos)
	if nAsserts >= 0 && nAsserts < limit {
		limit = nAsserts
	}
	rel := map[string]bool{}
	vc.symbolsOf(hyp.S, rel)
	vc.symbolsOf(goal.S, rel)
	included := make([]bool, len(vc.infos))
	changed := true
	for changed {
		changed = false
		for i := range vc.infos[:limit] {
			if included[i] {
				continue
			}
			ai := &vc.infos[i]
			take := false
			if ai.def != "" {
				take = rel[ai.def]
			} else {
				nonHub := 0
				for s := range ai.syms {
					if isHub(s) {
						continue
					}
					nonHub++
					if rel[s] {
						take = true
					}
				}
				if nonHub == 0 {
					for s := range ai.syms {
						if rel[s] {
							take = true
						}
					}
				}
			}
			if take {
				included[i] = true
				changed = true
				for s := range ai.syms {
					rel[s] = true
				}
			}
		}
	}
	var sb strings.Builder
	sb.WriteString("(set-option :produce-models true)\n(set-logic ALL)\n")
	sb.WriteString("(declare-sort Str 0)\n")
	for _, sym := range vc.declOrder {
		if rel[sym] {
			sb.WriteString(vc.decls[sym])
			sb.WriteByte('\n')
		}
	}
	for i, ai := range vc.infos {
		if included[i] {
			sb.WriteString(ai.text)
			sb.WriteByte('\n')
		}
	}
	sb.WriteString("(assert " + hyp.S + ")\n")
	sb.WriteString("(assert (not " + goal.S + "))\n")
	sb.WriteString("(check-sat)\n")
	if wantModel && len(vc.watch) > 0 {
		ws := append([]WatchTerm(nil), vc.watch...)
		sort.SliceStable(ws, func(i, j int) bool { return ws[i].Name < ws[j].Name })
		for _, w := range ws {
			ok := true
			ss := map[string]bool{}
			vc.symbolsOf(w.T.S, ss)
			for s := range ss {
				if !rel[s] {
					ok = false
				}
			}
			if ok {
				sb.WriteString("(get-value (" + w.T.S + "))\n")
			}
		}
	}
	return sb.String()
}
