package main

import (
	"go/constant"
	"go/types"
	"regexp"
	"regexp/syntax"
	"strings"

	"golang.org/x/tools/go/ssa"
)

// Facts about regular expressions compiled from constant patterns: the number of capturing
// groups and the minimum length of a match are computed from the pattern text with Go's own
// regexp/syntax at verification time (mechanical, no assumption beyond the regexp package
// doing what it documents). They are exposed to contracts as regexp.numSubexp(re) and
// regexp.minMatchLen(re).

type regexFact struct {
	pattern string
	nsub    int
	minLen  int
}

func regexFactsOf(pattern string) (regexFact, bool) {
	re, err := regexp.Compile(pattern)
	if err != nil {
		return regexFact{}, false
	}
	f := regexFact{pattern: pattern, nsub: re.NumSubexp()}
	if p, err := syntax.Parse(pattern, syntax.Perl); err == nil {
		f.minLen = reMinLen(p.Simplify())
	}
	return f, true
}

// reMinLen: lower bound on the byte length of any match.
func reMinLen(r *syntax.Regexp) int {
	switch r.Op {
	case syntax.OpLiteral:
		n := 0
		for _, c := range r.Rune {
			if r.Flags&syntax.FoldCase != 0 {
				n++ // a folded rune has at least one byte
				continue
			}
			switch {
			case c < 0x80:
				n++
			case c < 0x800:
				n += 2
			case c < 0x10000:
				n += 3
			default:
				n += 4
			}
		}
		return n
	case syntax.OpCharClass, syntax.OpAnyCharNotNL, syntax.OpAnyChar:
		return 1
	case syntax.OpCapture:
		return reMinLen(r.Sub[0])
	case syntax.OpConcat:
		n := 0
		for _, s := range r.Sub {
			n += reMinLen(s)
		}
		return n
	case syntax.OpAlternate:
		m := -1
		for _, s := range r.Sub {
			if k := reMinLen(s); m < 0 || k < m {
				m = k
			}
		}
		if m < 0 {
			m = 0
		}
		return m
	case syntax.OpPlus:
		return reMinLen(r.Sub[0])
	case syntax.OpRepeat:
		return r.Min * reMinLen(r.Sub[0])
	}
	// star, quest, empty matches, anchors, no-match
	return 0
}

// scanRegexGlobals: package-level variables assigned exactly once, in an init function, from
// regexp.MustCompile / regexp.Compile of a constant pattern.
func (e *Engine) scanRegexGlobals() {
	e.regexGlobals = map[*ssa.Global]regexFact{}
	stores := map[*ssa.Global]int{}
	for _, fn := range e.funcs {
		if fn == nil || fn.Blocks == nil {
			continue
		}
		for _, b := range fn.Blocks {
			for _, in := range b.Instrs {
				st, ok := in.(*ssa.Store)
				if !ok {
					continue
				}
				g, ok := st.Addr.(*ssa.Global)
				if !ok {
					continue
				}
				stores[g]++
				if f, ok := regexOfValue(st.Val); ok && (fn.Name() == "init" || strings.HasPrefix(fn.Name(), "init#")) {
					e.regexGlobals[g] = f
				}
			}
		}
	}
	for g := range e.regexGlobals {
		if stores[g] != 1 {
			delete(e.regexGlobals, g)
		}
	}
}

func regexOfValue(v ssa.Value) (regexFact, bool) {
	if ex, ok := v.(*ssa.Extract); ok {
		v = ex.Tuple
	}
	call, ok := v.(*ssa.Call)
	if !ok {
		return regexFact{}, false
	}
	callee := call.Call.StaticCallee()
	if callee == nil || (callee.String() != "regexp.MustCompile" && callee.String() != "regexp.Compile") || len(call.Call.Args) != 1 {
		return regexFact{}, false
	}
	k, ok := call.Call.Args[0].(*ssa.Const)
	if !ok || k.Value == nil || k.Value.Kind() != constant.String {
		return regexFact{}, false
	}
	return regexFactsOf(constant.StringVal(k.Value))
}

func (c *FnCtx) assertRegexFacts(re Term, f regexFact) {
	c.trusted["regexp patterns given as constants: group count and minimum match length computed from the pattern text with regexp/syntax"] = true
	c.vc.Assert(Eq(c.uf("spec$regexp.numSubexp", SInt, re), IntLit(int64(f.nsub))))
	c.vc.Assert(Eq(c.uf("spec$regexp.minMatchLen", SInt, re), IntLit(int64(f.minLen))))
}

// regexGlobalFacts: at function entry every known regex global holds its compiled pattern.
func (c *FnCtx) regexGlobalFacts(st *State) {
	for g, f := range c.eng.regexGlobals {
		// only for globals the function (or its package) can see being used: keep queries small
		if g.Pkg != c.fn.Pkg {
			continue
		}
		t := g.Type().Underlying().(*types.Pointer).Elem()
		loc := &Loc{Prefix: "global$" + g.Pkg.Pkg.Name() + "." + g.Name(), Idx: IntLit(0), T: t}
		if v, ok := c.loadLoc(st, loc).(Sc); ok {
			c.assertRegexFacts(v.T, f)
		}
	}
}

func (e *Engine) initRegexp() {
	e.externs["regexp.MustCompile"] = &externHandler{note: "regexp.MustCompile returns a new compiled expression (panics on an invalid pattern: patterns are constants)", fn: func(c *FnCtx, st *State, args []SV, rt types.Type) SV {
		r := c.allocRef(st, "regexp")
		if a, ok := args[0].(Sc); ok {
			if txt, ok := c.strLitText[a.T.S]; ok {
				if f, ok := regexFactsOf(txt); ok {
					c.assertRegexFacts(r, f)
				}
			}
		}
		return Sc{r}
	}, mods: func(c *FnCtx, cc *ssa.CallCommon, ms *loopModSet) { ms.heaps["alloc"] = SInt }}
}
