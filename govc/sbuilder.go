package main

import (
	"go/ast"
	"go/types"
	"strconv"

	"golang.org/x/tools/go/ssa"
)

// strings.Builder as an abstract object: one ghost heap sb$text maps the builder's reference
// to the text written so far. WriteString/WriteByte/WriteRune append (uninterpreted strcat),
// Len is the length of the text, String returns it, Reset empties it. A freshly allocated
// (zero) Builder holds "". The spec builtin sbtext(b) reads the text of a builder variable.

const sbHeap = "sb$text"

var sbSort = SArr(SInt, SStr)

func (c *FnCtx) sbInit(st *State, ref Term) {
	h := c.heapGet(st, sbHeap, sbSort)
	c.heapSet(st, sbHeap, c.vc.Name("h", Store(h, ref, c.strLit(""))))
}

func (e *Engine) initStringsBuilder() {
	text := func(c *FnCtx, st *State, b Term) Term {
		return Select(c.heapGet(st, sbHeap, sbSort), b, SStr)
	}
	set := func(c *FnCtx, st *State, b, v Term) {
		h := c.heapGet(st, sbHeap, sbSort)
		c.heapSet(st, sbHeap, c.vc.Name("h", Store(h, b, v)))
	}
	errNil := func(c *FnCtx, rt types.Type, n Term) SV {
		if rt == nil {
			return nil
		}
		if tu, ok := rt.(*types.Tuple); ok && tu.Len() == 2 {
			return Tu{Elems: []SV{Sc{n}, If{Tag: IntLit(0), ID: IntLit(0)}}}
		}
		return If{Tag: IntLit(0), ID: IntLit(0)}
	}
	type op struct {
		name  string
		write bool
		fn    func(c *FnCtx, st *State, b Term, args []SV, rt types.Type) SV
	}
	ops := []op{
		{"WriteString", true, func(c *FnCtx, st *State, b Term, args []SV, rt types.Type) SV {
			s := args[1].(Sc).T
			set(c, st, b, c.vc.Name("sb", c.strCat(text(c, st, b), s)))
			return errNil(c, rt, c.strLen(s))
		}},
		{"WriteByte", true, func(c *FnCtx, st *State, b Term, args []SV, rt types.Type) SV {
			s := c.byteStr(args[1].(Sc).T)
			set(c, st, b, c.vc.Name("sb", c.strCat(text(c, st, b), s)))
			return errNil(c, rt, IntLit(1))
		}},
		{"WriteRune", true, func(c *FnCtx, st *State, b Term, args []SV, rt types.Type) SV {
			s := c.uf("strrune", SStr, args[1].(Sc).T)
			set(c, st, b, c.vc.Name("sb", c.strCat(text(c, st, b), s)))
			return errNil(c, rt, c.strLen(s))
		}},
		{"Len", false, func(c *FnCtx, st *State, b Term, args []SV, rt types.Type) SV {
			return Sc{c.strLen(text(c, st, b))}
		}},
		{"String", false, func(c *FnCtx, st *State, b Term, args []SV, rt types.Type) SV {
			return Sc{c.vc.Name("sbstr", text(c, st, b))}
		}},
		{"Reset", true, func(c *FnCtx, st *State, b Term, args []SV, rt types.Type) SV {
			set(c, st, b, c.strLit(""))
			return nil
		}},
		{"Grow", false, func(c *FnCtx, st *State, b Term, args []SV, rt types.Type) SV { return nil }},
	}
	for _, o := range ops {
		o := o
		h := &externHandler{note: "strings.Builder as an abstract text accumulator", fn: func(c *FnCtx, st *State, args []SV, rt types.Type) SV {
			c.trusted["strings.Builder accumulates exactly the text written to it (ghost heap sb$text; Write* append, Len/String read, zero value is empty)"] = true
			b, ok := args[0].(Sc)
			if !ok {
				c.abstract("strings.Builder receiver")
				return c.defaultResult(st, rt, o.name)
			}
			return o.fn(c, st, b.T, args, rt)
		}}
		if o.write {
			h.mods = func(c *FnCtx, cc *ssa.CallCommon, ms *loopModSet) { ms.heaps[sbHeap] = sbSort }
		} else {
			h.mods = func(c *FnCtx, cc *ssa.CallCommon, ms *loopModSet) {}
		}
		e.externs["(*strings.Builder)."+o.name] = h
	}
}

// byteStr: the one-byte string holding b (a literal when b is a constant).
func (c *FnCtx) byteStr(b Term) Term {
	if v, ok := termIntConst(b); ok && v >= 0 && v < 256 {
		return c.strLit(string([]byte{byte(v)}))
	}
	s := c.uf("strbyte", SStr, b)
	c.vc.Assert(Eq(c.strLen(s), IntLit(1)))
	return s
}

func init() {
	// hashed(h): the text written to the hasher h since its creation / last Reset
	specBuiltins["hashed"] = func(e *SpecEnv, n *ast.CallExpr) (SV, types.Type) {
		v, _ := e.eval(n.Args[0])
		iv, ok := v.(If)
		if !ok {
			e.fail("hashed() needs a hash.Hash64 value")
		}
		return Sc{Select(e.c.heapGet(e.st, hhHeap, sbSort), iv.ID, SStr)}, types.Typ[types.String]
	}
	// fnv64a(s): the 64-bit FNV-1a sum of the bytes of s (uninterpreted)
	specBuiltins["fnv64a"] = func(e *SpecEnv, n *ast.CallExpr) (SV, types.Type) {
		v, t := e.eval(n.Args[0])
		tm, _ := e.scalar(v, t)
		return Sc{e.c.uf("fnv64a", e.c.scalarSort(types.Typ[types.Uint64]), tm)}, types.Typ[types.Uint64]
	}
	// sbtext(b): text accumulated in the strings.Builder b (a local/field of type
	// strings.Builder, or a *strings.Builder).
	specBuiltins["sbtext"] = func(e *SpecEnv, n *ast.CallExpr) (SV, types.Type) {
		c := e.c
		var ref Term
		found := false
		if id, ok := n.Args[0].(*ast.Ident); ok && e.fr != nil {
			if a, ok := e.fr.named[id.Name]; ok && !e.fr.direct[a] {
				if p, ok := e.fr.regs[a].(Sc); ok {
					ref, found = p.T, true
				}
			}
		}
		if !found {
			v, t := e.eval(n.Args[0])
			if _, isPtr := t.Underlying().(*types.Pointer); !isPtr {
				e.fail("sbtext() needs a strings.Builder local or a *strings.Builder")
			}
			ref, _ = e.scalar(v, t)
		}
		return Sc{Select(c.heapGet(e.st, sbHeap, sbSort), ref, SStr)}, types.Typ[types.String]
	}
}

func (c *FnCtx) strCat(a, b Term) Term {
	empty := c.strLit("")
	if a.S == empty.S {
		return b
	}
	if b.S == empty.S {
		return a
	}
	r := c.uf("strcat", SStr, a, b)
	c.vc.Assert(Eq(c.strLen(r), App(SInt, "+", c.strLen(a), c.strLen(b))))
	c.vc.Assert(Implies(Eq(a, empty), Eq(r, b)))
	c.vc.Assert(Implies(Eq(b, empty), Eq(r, a)))
	return r
}

func termIntConst(t Term) (int64, bool) {
	if t.Sort != SInt {
		return 0, false
	}
	v, err := strconv.ParseInt(t.S, 10, 64)
	return v, err == nil
}

// sliceText: the text held by a []byte value (known when the slice came from a string conversion).
func (c *FnCtx) sliceText(st *State, v SV) Term {
	sl, ok := v.(Sl)
	if !ok || c.modeBV {
		return c.vc.Fresh("bytes$text", SStr)
	}
	h := c.heapGet(st, "elem$uint8", c.heapSort(SInt, true))
	return c.uf("slicetext", SStr, Select(h, sl.Arr, SArr(SInt, SInt)), sl.Off, sl.Len)
}

// hash.Hash64 from hash/fnv.New64a as an abstract accumulator: ghost heap hh$text maps the
// hasher object to the text written since creation / the last Reset; Sum64 is an uninterpreted
// function fnv64a of that text.
const hhHeap = "hh$text"

func (e *Engine) initHasher() {
	note := "hash/fnv 64a hasher: Sum64 is a function (fnv64a) of the bytes written since New64a/Reset; Write never fails"
	get := func(c *FnCtx, st *State, args []SV) (Term, Term, bool) {
		iv, ok := args[0].(If)
		if !ok {
			return Term{}, Term{}, false
		}
		h := c.heapGet(st, hhHeap, sbSort)
		return iv.ID, Select(h, iv.ID, SStr), true
	}
	set := func(c *FnCtx, st *State, id, v Term) {
		h := c.heapGet(st, hhHeap, sbSort)
		c.heapSet(st, hhHeap, c.vc.Name("h", Store(h, id, v)))
	}
	wmods := func(c *FnCtx, cc *ssa.CallCommon, ms *loopModSet) { ms.heaps[hhHeap] = sbSort }
	nomods := func(c *FnCtx, cc *ssa.CallCommon, ms *loopModSet) {}
	e.externs["hash/fnv.New64a"] = &externHandler{note: note, mods: wmods, fn: func(c *FnCtx, st *State, args []SV, rt types.Type) SV {
		c.trusted[note] = true
		id := c.allocRef(st, "hasher")
		set(c, st, id, c.strLit(""))
		tag := c.vc.Const("tag$fnv.sum64a", SInt)
		c.vc.Assert(App(SBool, ">", tag, IntLit(0)))
		return If{Tag: tag, ID: id}
	}}
	e.invokes["(io.Writer).Write"] = &externHandler{note: note, mods: wmods, fn: func(c *FnCtx, st *State, args []SV, rt types.Type) SV {
		iv, _ := args[0].(If)
		tag := c.vc.Const("tag$fnv.sum64a", SInt)
		id, cur, ok := get(c, st, args)
		nilErr := If{Tag: IntLit(0), ID: IntLit(0)}
		var n Term = c.vc.Fresh("wn", SInt)
		if sl, isSl := args[1].(Sl); isSl {
			n = sl.Len
		}
		if !ok {
			return c.defaultResult(st, rt, "Write")
		}
		// only hashers are modelled: for any other writer the result is unconstrained
		isH := Eq(iv.Tag, tag)
		txt := c.sliceText(st, args[1])
		set(c, st, id, c.vc.Name("hh", Ite(isH, c.strCat(cur, txt), cur)))
		other := c.defaultResult(st, rt, "Write")
		return c.mergeSV(isH, Tu{Elems: []SV{Sc{n}, nilErr}}, other)
	}}
	e.invokes["(hash.Hash64).Sum64"] = &externHandler{note: note, mods: nomods, fn: func(c *FnCtx, st *State, args []SV, rt types.Type) SV {
		_, cur, ok := get(c, st, args)
		if !ok {
			return c.defaultResult(st, rt, "Sum64")
		}
		iv := args[0].(If)
		tag := c.vc.Const("tag$fnv.sum64a", SInt)
		r := c.uf("fnv64a", c.scalarSort(types.Typ[types.Uint64]), cur)
		other := c.defaultResult(st, rt, "Sum64")
		return c.mergeSV(Eq(iv.Tag, tag), Sc{r}, other)
	}}
	e.invokes["(hash.Hash).Reset"] = &externHandler{note: note, mods: wmods, fn: func(c *FnCtx, st *State, args []SV, rt types.Type) SV {
		id, cur, ok := get(c, st, args)
		if !ok {
			return nil
		}
		iv := args[0].(If)
		tag := c.vc.Const("tag$fnv.sum64a", SInt)
		set(c, st, id, c.vc.Name("hh", Ite(Eq(iv.Tag, tag), c.strLit(""), cur)))
		return nil
	}}
}

func init() {
	// visited(k): inside the invariant of a range-over-map loop: key k has already been handed
	// out by the loop's iterator
	specBuiltins["visited"] = func(e *SpecEnv, n *ast.CallExpr) (SV, types.Type) {
		c := e.c
		if e.fr == nil || e.fr.curLoop == nil {
			e.fail("visited() outside a loop")
		}
		var nx *ssa.Next
		for _, in := range e.fr.curLoop.head.Instrs {
			if x, ok := in.(*ssa.Next); ok && !x.IsString {
				nx = x
			}
		}
		if nx == nil {
			e.fail("visited(): the loop is not a range over a map")
		}
		rng, _ := nx.Iter.(*ssa.Range)
		if rng == nil {
			e.fail("visited(): iterator not found")
		}
		m, ok := rng.X.Type().Underlying().(*types.Map)
		if !ok {
			e.fail("visited(): not a map range")
		}
		itv, ok := e.fr.regs[nx.Iter].(Sc)
		if !ok {
			e.fail("visited(): iterator has no value yet")
		}
		ks := c.scalarSort(m.Key())
		if ks == "" {
			ks = SInt
		}
		kv, kt := e.eval(n.Args[0])
		var key Term
		if k, isK := kv.(Kv); isK {
			key = e.constTo(k, ks, m.Key())
		} else {
			key, _ = e.scalar(kv, kt)
		}
		vh := c.heapGet(e.st, "iter$visited$"+string(ks), SArr(SInt, SArr(ks, SBool)))
		return Sc{Select(Select(vh, itv.T, SArr(ks, SBool)), key, SBool)}, tBool
	}
}

func init() {
	// istype(x, T): the dynamic type of the interface value x is T
	specBuiltins["istype"] = func(e *SpecEnv, n *ast.CallExpr) (SV, types.Type) {
		if len(n.Args) != 2 {
			e.fail("istype(x, T) needs two arguments")
		}
		v, _ := e.eval(n.Args[0])
		iv, ok := v.(If)
		if !ok {
			e.fail("istype(): not an interface value")
		}
		t := e.c.eng.specTypeExpr(e.pkg, n.Args[1])
		if t == nil {
			e.fail("istype(): unknown type")
		}
		return Sc{Eq(iv.Tag, e.c.typeTag(t))}, tBool
	}
}

func init() {
	// unbox(x, T): the value of dynamic type T held by the interface value x (meaningful under istype(x, T))
	specBuiltins["unbox"] = func(e *SpecEnv, n *ast.CallExpr) (SV, types.Type) {
		if len(n.Args) != 2 {
			e.fail("unbox(x, T) needs two arguments")
		}
		v, _ := e.eval(n.Args[0])
		iv, ok := v.(If)
		if !ok {
			e.fail("unbox(): not an interface value")
		}
		t := e.c.eng.specTypeExpr(e.pkg, n.Args[1])
		if t == nil {
			e.fail("unbox(): unknown type")
		}
		return e.c.unbox(iv.ID, t), t
	}
}
