package main

import (
	"fmt"
	"go/ast"
	"go/constant"
	"go/token"
	"go/types"
	"math/big"
	"strconv"
	"strings"

	"golang.org/x/tools/go/ssa"
)

// Kv is an untyped constant inside a spec expression.
type Kv struct{ V constant.Value }

func (Kv) isSV() {}

// spec-only types
var (
	tReal    = types.Typ[types.UntypedFloat]
	tMathInt = types.Typ[types.UntypedInt]
	tBool    = types.Typ[types.Bool]
)

var specBuiltins = map[string]func(e *SpecEnv, n *ast.CallExpr) (SV, types.Type){}

type bound struct {
	v SV
	t types.Type
}

type SpecEnv struct {
	c        *FnCtx
	st       *State
	old      *State
	fr       *Frame
	vars     map[string]bound
	freePtrs map[string]bool // names bound to the address of a captured variable (closure free variables)
	pkg      *types.Package
	useCells bool
	inOld    bool
	ct       *FuncContract
	depth    int
	callSite int // > 0 while a callee's contract is evaluated at a call site
}

type specError struct{ msg string }

func (e *SpecEnv) fail(format string, args ...interface{}) {
	panic(specError{fmt.Sprintf(format, args...)})
}

func (e *SpecEnv) child() *SpecEnv {
	n := *e
	n.vars = make(map[string]bound, len(e.vars)+2)
	for k, v := range e.vars {
		n.vars[k] = v
	}
	return &n
}

// specEnv builds the environment for clauses of the function executing in frame fr.
func (c *FnCtx) specEnv(fr *Frame, st *State) *SpecEnv {
	e := &SpecEnv{c: c, st: st, old: c.initial, fr: fr, vars: map[string]bound{}, pkg: fr.fn.Pkg.Pkg, ct: fr.contract}
	if fr.fn.Pkg == nil && fr.fn.Parent() != nil {
		e.pkg = fr.fn.Parent().Pkg.Pkg
	}
	for _, p := range fr.fn.Params {
		if v, ok := fr.regs[p]; ok {
			e.vars[p.Name()] = bound{v, p.Type()}
		}
	}
	for i, fv := range fr.fn.FreeVars {
		if i < len(fr.free) {
			e.vars[fv.Name()] = bound{fr.free[i], fv.Type()}
			if e.freePtrs == nil {
				e.freePtrs = map[string]bool{}
			}
			e.freePtrs[fv.Name()] = true
		}
	}
	e.useCells = true
	for k, v := range fr.loopLets {
		e.vars[k] = v
	}
	if fr.contract != nil {
		e.bindLets(fr.contract)
	}
	return e
}

func (e *SpecEnv) bindLets(ct *FuncContract) {
	for _, l := range ct.Lets {
		if _, ok := e.vars[l.Name]; ok {
			continue
		}
		oe := *e
		oe.st = e.old
		oe.inOld = true
		oe.useCells = false
		v, t := oe.eval(l.Expr)
		e.vars[l.Name] = bound{v, t}
	}
}

func (e *SpecEnv) evalBool(x ast.Expr) Term {
	v, _ := e.eval(x)
	switch b := v.(type) {
	case Sc:
		if b.T.Sort == SBool {
			return b.T
		}
	case Kv:
		if b.V.Kind() == constant.Bool {
			return BoolLit(constant.BoolVal(b.V))
		}
	}
	e.fail("expression %s is not boolean", exprString(x))
	return TFalse
}

func exprString(x ast.Expr) string {
	return types.ExprString(x)
}

// constTo converts an untyped constant to the sort of the other operand.
func (e *SpecEnv) constTo(k Kv, s Sort, t types.Type) Term {
	c := e.c
	switch {
	case s == SInt:
		v := constant.ToInt(k.V)
		if v.Kind() != constant.Int {
			e.fail("constant %s is not an integer", k.V)
		}
		bi, _ := new(big.Int).SetString(v.ExactString(), 10)
		return BigIntLit(bi)
	case s == SReal:
		return RealLit(constToRat(k.V))
	case s.IsBV():
		v := constant.ToInt(k.V)
		bi, _ := new(big.Int).SetString(v.ExactString(), 10)
		return BVLit(bi, s.BVWidth())
	case s == SFP:
		f, _ := constant.Float64Val(k.V)
		return FPLit(f)
	case s == SBool:
		return BoolLit(constant.BoolVal(k.V))
	case s == SStr:
		return c.strLit(constant.StringVal(k.V))
	}
	e.fail("cannot convert constant %s to %s", k.V, s)
	return Term{}
}

func constToRat(v constant.Value) *big.Rat {
	switch v.Kind() {
	case constant.Int:
		bi, _ := new(big.Int).SetString(v.ExactString(), 10)
		return new(big.Rat).SetInt(bi)
	case constant.Float:
		r, ok := new(big.Rat).SetString(v.ExactString())
		if ok {
			return r
		}
		f, _ := constant.Float64Val(v)
		return new(big.Rat).SetFloat64(f)
	}
	return new(big.Rat)
}

func (e *SpecEnv) defaultConst(k Kv) (Term, types.Type) {
	switch k.V.Kind() {
	case constant.Bool:
		return BoolLit(constant.BoolVal(k.V)), tBool
	case constant.String:
		return e.c.strLit(constant.StringVal(k.V)), types.Typ[types.String]
	case constant.Int:
		return e.constTo(k, SInt, tMathInt), tMathInt
	case constant.Float:
		if constant.ToInt(k.V).Kind() == constant.Int {
			return e.constTo(k, SInt, tMathInt), tMathInt
		}
		return e.constTo(k, SReal, tReal), tReal
	}
	e.fail("unsupported constant %s", k.V)
	return Term{}, nil
}

// scalar gets a term out of a value, converting untyped constants by default typing.
func (e *SpecEnv) scalar(v SV, t types.Type) (Term, types.Type) {
	switch x := v.(type) {
	case Sc:
		return x.T, t
	case Kv:
		return e.defaultConst(x)
	case Ad:
		if x.Loc != nil && x.Loc.Idx2 == nil {
			return x.Loc.Idx, t
		}
	case Fn:
		if x.Opaque.Valid() {
			return x.Opaque, t
		}
		if x.F != nil && len(x.Free) == 0 {
			return e.c.funcRef(x.F), t
		}
		if x.CID.Valid() {
			return x.CID, t
		}
	}
	e.fail("value of type %v is not a scalar in a spec expression (%T)", t, v)
	return Term{}, nil
}

func (e *SpecEnv) unify(a SV, at types.Type, b SV, bt types.Type) (Term, Term, types.Type) {
	ka, aConst := a.(Kv)
	kb, bConst := b.(Kv)
	switch {
	case aConst && bConst:
		// both constants: fold later; use default typing, prefer real if either is non-integer
		ta, tya := e.defaultConst(ka)
		tb, tyb := e.defaultConst(kb)
		if ta.Sort != tb.Sort {
			if ta.Sort == SInt && tb.Sort == SReal {
				return e.constTo(ka, SReal, tReal), tb, tReal
			}
			if ta.Sort == SReal && tb.Sort == SInt {
				return ta, e.constTo(kb, SReal, tReal), tReal
			}
		}
		_ = tyb
		return ta, tb, tya
	case aConst:
		tb, _ := e.scalar(b, bt)
		return e.constTo(ka, tb.Sort, bt), tb, bt
	case bConst:
		ta, _ := e.scalar(a, at)
		return ta, e.constTo(kb, ta.Sort, at), at
	}
	ta, _ := e.scalar(a, at)
	tb, _ := e.scalar(b, bt)
	if ta.Sort != tb.Sort {
		// Int vs Real: promote
		if ta.Sort == SInt && tb.Sort == SReal {
			return App(SReal, "to_real", ta), tb, bt
		}
		if ta.Sort == SReal && tb.Sort == SInt {
			return ta, App(SReal, "to_real", tb), at
		}
		e.fail("operands have different sorts: %s vs %s", ta.Sort, tb.Sort)
	}
	return ta, tb, at
}

func (e *SpecEnv) eval(x ast.Expr) (SV, types.Type) {
	c := e.c
	switch n := x.(type) {
	case *ast.ParenExpr:
		return e.eval(n.X)
	case *ast.BasicLit:
		switch n.Kind {
		case token.INT, token.FLOAT:
			return Kv{constant.MakeFromLiteral(n.Value, n.Kind, 0)}, nil
		case token.STRING:
			s, _ := strconv.Unquote(n.Value)
			return Sc{c.strLit(s)}, types.Typ[types.String]
		case token.CHAR:
			return Kv{constant.MakeFromLiteral(n.Value, n.Kind, 0)}, nil
		}
	case *ast.Ident:
		return e.ident(n)
	case *ast.UnaryExpr:
		v, t := e.eval(n.X)
		switch n.Op {
		case token.NOT:
			return Sc{Not(e.evalBool(n.X))}, tBool
		case token.SUB:
			if k, ok := v.(Kv); ok {
				return Kv{constant.UnaryOp(token.SUB, k.V, 0)}, nil
			}
			tm, ty := e.scalar(v, t)
			switch {
			case tm.Sort == SInt || tm.Sort == SReal:
				return Sc{App(tm.Sort, "-", tm)}, ty
			case tm.Sort.IsBV():
				return Sc{App(tm.Sort, "bvneg", tm)}, ty
			case tm.Sort.IsFP():
				return Sc{App(tm.Sort, "fp.neg", tm)}, ty
			}
		case token.AND:
			// &x.f : location
			loc := e.evalLoc(n.X)
			return Ad{Loc: loc}, types.NewPointer(loc.T)
		}
	case *ast.StarExpr:
		v, t := e.eval(n.X)
		pt, ok := t.Underlying().(*types.Pointer)
		if !ok {
			e.fail("dereference of non-pointer %s", exprString(n.X))
		}
		switch p := v.(type) {
		case Ad:
			if p.Cell != nil {
				return c.cellLoad(e.fr, e.st, *p.Cell), pt.Elem()
			}
			return c.loadLoc(e.st, p.Loc), pt.Elem()
		case Sc:
			if structOf(pt.Elem()) != nil {
				return c.loadStruct(e.st, pt.Elem(), p.T), pt.Elem()
			}
			return c.loadLoc(e.st, &Loc{Prefix: "cell$" + typeKey(pt.Elem()), Idx: p.T, T: pt.Elem()}), pt.Elem()
		}
	case *ast.BinaryExpr:
		return e.binary(n)
	case *ast.SelectorExpr:
		return e.selector(n)
	case *ast.IndexExpr:
		return e.indexExpr(n)
	case *ast.CallExpr:
		return e.callExpr(n)
	}
	e.fail("unsupported spec expression %s (%T)", exprString(x), x)
	return nil, nil
}

func (e *SpecEnv) ident(n *ast.Ident) (SV, types.Type) {
	c := e.c
	switch n.Name {
	case "true":
		return Sc{TTrue}, tBool
	case "false":
		return Sc{TFalse}, tBool
	case "nil":
		return Sc{IntLit(0)}, types.Typ[types.UntypedNil]
	}
	if n.Name == "rangeindex" && e.fr != nil && e.fr.curLoop != nil && e.fr.curLoop.rangeAlloc != nil && !e.inOld {
		if v, t, ok := e.localVar(e.fr.curLoop.rangeAlloc); ok {
			return v, t
		}
	}
	// a source name declared several times in the function (three loops with their own `i`):
	// inside a loop the declaration used by that loop is meant
	if !e.inOld && e.fr != nil && e.fr.curLoop != nil {
		if a := allocUsedInLoop(e.fr.curLoop, n.Name); a != nil && a != e.fr.named[n.Name] {
			if v, t, ok := e.localVar(a); ok {
				return v, t
			}
		}
	}
	if e.useCells && !e.inOld && e.fr != nil {
		if a, ok := e.fr.named[n.Name]; ok {
			if _, isParam := e.fr.params[n.Name]; !isParam || e.depth >= 0 {
				if v, t, ok := e.localVar(a); ok {
					return v, t
				}
			}
		}
	}
	if b, ok := e.vars[n.Name]; ok {
		if e.freePtrs[n.Name] {
			// a captured variable: the name denotes the variable, the closure holds its address
			if v, t, ok := e.derefFree(b); ok {
				return v, t
			}
		}
		return b.v, b.t
	}
	if c.og != nil {
		if l, ok := c.og.locals[n.Name]; ok {
			if v, ok := e.st.cells[l.key]; ok {
				return v, l.Type
			}
			return c.zeroValue(l.Type), l.Type
		}
	}
	if e.fr != nil {
		if a, ok := e.fr.named[n.Name]; ok {
			if v, t, ok := e.localVar(a); ok {
				return v, t
			}
		}
	}
	// ghost variables
	if g := c.eng.ghost(e.pkg, n.Name); g != nil {
		return c.ghostRead(e.st, g), c.eng.specType(e.pkg, g.Type)
	}
	// package scope
	if e.pkg != nil {
		if obj := e.pkg.Scope().Lookup(n.Name); obj != nil {
			return e.object(obj)
		}
	}
	if obj := types.Universe.Lookup(n.Name); obj != nil {
		if k, ok := obj.(*types.Const); ok {
			return Kv{k.Val()}, nil
		}
	}
	e.fail("unknown identifier %s", n.Name)
	return nil, nil
}

func (e *SpecEnv) derefFree(b bound) (SV, types.Type, bool) {
	c := e.c
	pt, ok := b.t.Underlying().(*types.Pointer)
	if !ok {
		return nil, nil, false
	}
	et := pt.Elem()
	switch p := b.v.(type) {
	case Ad:
		if p.Cell != nil {
			if v, ok := e.st.cells[*p.Cell]; ok {
				return v, et, true
			}
			return c.zeroValue(et), et, true
		}
		if p.Loc != nil {
			return c.loadLoc(e.st, p.Loc), et, true
		}
	case Sc:
		if structOf(et) != nil {
			return c.loadStruct(e.st, et, p.T), et, true
		}
		return c.loadLoc(e.st, &Loc{Prefix: "cell$" + typeKey(et), Idx: p.T, T: et}), et, true
	}
	return nil, nil, false
}

func (e *SpecEnv) localVar(a *ssa.Alloc) (SV, types.Type, bool) {
	c := e.c
	et := a.Type().Underlying().(*types.Pointer).Elem()
	if e.fr.direct[a] {
		k := cellKey{frame: e.fr.id, alloc: a}
		if v, ok := e.st.cells[k]; ok {
			return v, et, true
		}
		return nil, nil, false
	}
	pv, ok := e.fr.regs[a]
	if !ok {
		return nil, nil, false
	}
	switch p := pv.(type) {
	case Sc:
		if structOf(et) != nil {
			return c.loadStruct(e.st, et, p.T), et, true
		}
	case Ad:
		if p.Loc != nil {
			return c.loadLoc(e.st, p.Loc), et, true
		}
	}
	return nil, nil, false
}

func (e *SpecEnv) object(obj types.Object) (SV, types.Type) {
	c := e.c
	switch o := obj.(type) {
	case *types.Const:
		// typed constant
		if b, ok := o.Type().Underlying().(*types.Basic); ok && b.Info()&types.IsUntyped == 0 {
			s := c.scalarSort(o.Type())
			return Sc{e.constTo(Kv{o.Val()}, s, o.Type())}, o.Type()
		}
		return Kv{o.Val()}, nil
	case *types.Var:
		// package-level variable
		t := o.Type()
		if structOf(t) != nil {
			ref := c.vc.Const("gref$"+o.Pkg().Name()+"."+o.Name(), SInt)
			return c.loadStruct(e.st, t, ref), t
		}
		return c.loadLoc(e.st, &Loc{Prefix: "global$" + o.Pkg().Name() + "." + o.Name(), Idx: IntLit(0), T: t}), t
	case *types.Func:
		if f := c.eng.prog.FuncValue(o); f != nil {
			return Fn{F: f}, o.Type()
		}
	}
	e.fail("unsupported object %s in spec", obj.Name())
	return nil, nil
}

func (e *SpecEnv) binary(n *ast.BinaryExpr) (SV, types.Type) {
	switch n.Op {
	case token.LAND:
		return Sc{And(e.evalBool(n.X), e.evalBool(n.Y))}, tBool
	case token.LOR:
		return Sc{Or(e.evalBool(n.X), e.evalBool(n.Y))}, tBool
	}
	a, at := e.eval(n.X)
	b, bt := e.eval(n.Y)
	// constant folding
	if ka, ok := a.(Kv); ok {
		if kb, ok := b.(Kv); ok {
			switch n.Op {
			case token.EQL, token.NEQ, token.LSS, token.LEQ, token.GTR, token.GEQ:
				return Sc{BoolLit(constant.Compare(ka.V, n.Op, kb.V))}, tBool
			case token.QUO:
				// spec-level division of constants is exact
				return Kv{constant.BinaryOp(constant.ToFloat(ka.V), token.QUO, constant.ToFloat(kb.V))}, nil
			case token.SHL, token.SHR:
				s, _ := constant.Uint64Val(kb.V)
				return Kv{constant.Shift(ka.V, n.Op, uint(s))}, nil
			default:
				return Kv{constant.BinaryOp(ka.V, n.Op, kb.V)}, nil
			}
		}
	}
	switch n.Op {
	case token.EQL, token.NEQ:
		// compound equality
		_, ak := a.(Kv)
		_, bk := b.(Kv)
		if !ak && !bk {
			t := at
			if t == nil || isNilType(t) {
				t = bt
			}
			if eq, ok := e.c.equalSV(a, b, t); ok {
				if n.Op == token.NEQ {
					return Sc{Not(eq)}, tBool
				}
				return Sc{eq}, tBool
			}
		}
	}
	ta, tb, ty := e.unify(a, at, b, bt)
	s := ta.Sort
	uns := false
	if ty != nil {
		if bb := basicOf(ty); bb != nil && bb.Info()&types.IsInteger != 0 && isUnsigned(bb) {
			uns = true
		}
	}
	cmpOps := map[token.Token][4]string{
		token.LSS: {"<", "bvslt", "bvult", "fp.lt"},
		token.LEQ: {"<=", "bvsle", "bvule", "fp.leq"},
		token.GTR: {">", "bvsgt", "bvugt", "fp.gt"},
		token.GEQ: {">=", "bvsge", "bvuge", "fp.geq"},
	}
	switch n.Op {
	case token.EQL:
		return Sc{Eq(ta, tb)}, tBool
	case token.NEQ:
		return Sc{Not(Eq(ta, tb))}, tBool
	case token.LSS, token.LEQ, token.GTR, token.GEQ:
		ops := cmpOps[n.Op]
		switch {
		case s == SInt || s == SReal:
			return Sc{App(SBool, ops[0], ta, tb)}, tBool
		case s.IsBV() && uns:
			return Sc{App(SBool, ops[2], ta, tb)}, tBool
		case s.IsBV():
			return Sc{App(SBool, ops[1], ta, tb)}, tBool
		case s.IsFP():
			return Sc{App(SBool, ops[3], ta, tb)}, tBool
		}
	case token.ADD, token.SUB, token.MUL:
		op := map[token.Token]string{token.ADD: "+", token.SUB: "-", token.MUL: "*"}[n.Op]
		switch {
		case s == SInt || s == SReal:
			// spec arithmetic is mathematical (no wrap-around)
			return Sc{App(s, op, ta, tb)}, specArithType(ty)
		case s.IsBV():
			bop := map[token.Token]string{token.ADD: "bvadd", token.SUB: "bvsub", token.MUL: "bvmul"}[n.Op]
			return Sc{App(s, bop, ta, tb)}, ty
		case s.IsFP():
			fop := map[token.Token]string{token.ADD: "fp.add", token.SUB: "fp.sub", token.MUL: "fp.mul"}[n.Op]
			return Sc{App(s, fop, Term{"RNE", "RoundingMode"}, ta, tb)}, ty
		case s == SStr && n.Op == token.ADD:
			return Sc{e.c.uf("strcat", SStr, ta, tb)}, ty
		}
	case token.QUO:
		switch {
		case s == SReal:
			return Sc{App(SReal, "/", ta, tb)}, ty
		case s == SInt:
			return Sc{truncDiv(ta, tb)}, specArithType(ty)
		case s.IsBV():
			if uns {
				return Sc{App(s, "bvudiv", ta, tb)}, ty
			}
			return Sc{App(s, "bvsdiv", ta, tb)}, ty
		case s.IsFP():
			return Sc{App(s, "fp.div", Term{"RNE", "RoundingMode"}, ta, tb)}, ty
		}
	case token.REM:
		switch {
		case s == SInt:
			return Sc{App(SInt, "-", ta, App(SInt, "*", tb, truncDiv(ta, tb)))}, specArithType(ty)
		case s.IsBV():
			if uns {
				return Sc{App(s, "bvurem", ta, tb)}, ty
			}
			return Sc{App(s, "bvsrem", ta, tb)}, ty
		}
	case token.AND, token.OR, token.XOR, token.SHL, token.SHR:
		if s.IsBV() {
			bop := map[token.Token]string{token.AND: "bvand", token.OR: "bvor", token.XOR: "bvxor", token.SHL: "bvshl", token.SHR: "bvlshr"}[n.Op]
			if n.Op == token.SHR && !uns {
				bop = "bvashr"
			}
			return Sc{App(s, bop, ta, tb)}, ty
		}
		if s == SBool {
			switch n.Op {
			case token.AND:
				return Sc{And(ta, tb)}, tBool
			case token.OR:
				return Sc{Or(ta, tb)}, tBool
			case token.XOR:
				return Sc{App(SBool, "xor", ta, tb)}, tBool
			}
		}
	}
	e.fail("unsupported operator %s on sort %s in %s", n.Op, s, exprString(n))
	return nil, nil
}

func specArithType(t types.Type) types.Type { return t }

func isNilType(t types.Type) bool {
	b, ok := t.(*types.Basic)
	return ok && b.Kind() == types.UntypedNil
}

// fieldPath finds a (possibly promoted) field.
func fieldPath(t types.Type, name string, pkg *types.Package) ([]int, bool) {
	obj, idx, _ := types.LookupFieldOrMethod(t, true, pkg, name)
	if v, ok := obj.(*types.Var); ok && v.IsField() {
		return idx, true
	}
	// unexported field of another package: search manually
	st := structOf(derefType(t))
	if st == nil {
		return nil, false
	}
	for i := 0; i < st.NumFields(); i++ {
		if st.Field(i).Name() == name {
			return []int{i}, true
		}
	}
	for i := 0; i < st.NumFields(); i++ {
		f := st.Field(i)
		if f.Embedded() {
			if p, ok := fieldPath(f.Type(), name, pkg); ok {
				return append([]int{i}, p...), true
			}
		}
	}
	return nil, false
}

func (e *SpecEnv) selector(n *ast.SelectorExpr) (SV, types.Type) {
	c := e.c
	// package-qualified identifier?
	if id, ok := n.X.(*ast.Ident); ok {
		if _, isVar := e.vars[id.Name]; !isVar && (e.fr == nil || e.fr.named[id.Name] == nil) {
			if e.pkg == nil || e.pkg.Scope().Lookup(id.Name) == nil {
				if p := c.eng.packageByName(id.Name, e.pkg); p != nil {
					obj := p.Scope().Lookup(n.Sel.Name)
					if obj == nil {
						if g := c.eng.cs.Ghosts[p.Path()+"::"+n.Sel.Name]; g != nil {
							return c.ghostRead(e.st, g), c.eng.specType(p, g.Type)
						}
						e.fail("package %s has no %s", id.Name, n.Sel.Name)
					}
					return e.object(obj)
				}
			}
		}
	}
	v, t := e.eval(n.X)
	return e.selectField(v, t, n.Sel.Name)
}

func (e *SpecEnv) selectField(v SV, t types.Type, name string) (SV, types.Type) {
	c := e.c
	if t == nil {
		e.fail("selector .%s on untyped value", name)
	}
	path, ok := fieldPath(t, name, e.pkg)
	if !ok {
		e.fail("type %s has no field %s", t, name)
	}
	cur, curT := v, t
	for _, i := range path {
		if pt, ok := curT.Underlying().(*types.Pointer); ok {
			ref, ok := cur.(Sc)
			if !ok {
				e.fail("field selection through unsupported pointer")
			}
			stT := pt.Elem()
			loc := fieldLoc(stT, i, ref.T)
			if structOf(loc.T) != nil {
				// stay by reference
				cur, curT = Sc{c.subRef(loc)}, types.NewPointer(loc.T)
			} else {
				cur, curT = c.loadLoc(e.st, loc), loc.T
			}
			continue
		}
		sv, ok := cur.(St)
		if !ok {
			e.fail("field selection on non-struct value (%T) of type %s", cur, curT)
		}
		s := curT.Underlying().(*types.Struct)
		cur, curT = sv.Fields[i], s.Field(i).Type()
	}
	// a struct reached by reference is returned as pointer-to-struct; callers that need the
	// value (e.g. time.Time) get scalars directly since time.Time is scalar
	return cur, curT
}

// evalLoc evaluates an lvalue expression to a location.
func (e *SpecEnv) evalLoc(x ast.Expr) *Loc {
	c := e.c
	switch n := x.(type) {
	case *ast.ParenExpr:
		return e.evalLoc(n.X)
	case *ast.SelectorExpr:
		// pkg.ghost
		if id, ok := n.X.(*ast.Ident); ok {
			if _, isVar := e.vars[id.Name]; !isVar && (e.fr == nil || e.fr.named[id.Name] == nil) {
				if p := c.eng.packageByName(id.Name, e.pkg); p != nil {
					if g := c.eng.cs.Ghosts[p.Path()+"::"+n.Sel.Name]; g != nil {
						return &Loc{Prefix: "ghost$" + g.Pkg + "." + g.Name, Idx: IntLit(0), T: c.eng.specType(p, g.Type)}
					}
				}
			}
		}
		v, t := e.eval(n.X)
		path, ok := fieldPath(t, n.Sel.Name, e.pkg)
		if !ok {
			e.fail("type %s has no field %s", t, n.Sel.Name)
		}
		cur, curT := v, t
		var loc *Loc
		for k, i := range path {
			pt, ok := curT.Underlying().(*types.Pointer)
			if !ok {
				e.fail("location %s: base is not a pointer", exprString(x))
			}
			ref, ok := cur.(Sc)
			if !ok {
				e.fail("location through unsupported pointer")
			}
			loc = fieldLoc(pt.Elem(), i, ref.T)
			if k < len(path)-1 {
				if structOf(loc.T) != nil {
					cur, curT = Sc{c.subRef(loc)}, types.NewPointer(loc.T)
				} else {
					cur, curT = c.loadLoc(e.st, loc), loc.T
				}
			}
		}
		return loc
	case *ast.IndexExpr:
		v, t := e.eval(n.X)
		iv, it := e.eval(n.Index)
		idx, _ := e.scalar(iv, it)
		if sl, ok := v.(Sl); ok {
			et := t.Underlying().(*types.Slice).Elem()
			return c.elemLoc(et, sl.Arr, c.ix(sl.Off, idx))
		}
	case *ast.StarExpr:
		v, t := e.eval(n.X)
		if pt, ok := t.Underlying().(*types.Pointer); ok {
			if a, ok := v.(Ad); ok && a.Loc != nil {
				return a.Loc
			}
			if s, ok := v.(Sc); ok {
				return &Loc{Prefix: "cell$" + typeKey(pt.Elem()), Idx: s.T, T: pt.Elem()}
			}
		}
	case *ast.Ident:
		// global variable or ghost
		if g := c.eng.ghost(e.pkg, n.Name); g != nil {
			return &Loc{Prefix: "ghost$" + g.Pkg + "." + g.Name, Idx: IntLit(0), T: c.eng.specType(e.pkg, g.Type)}
		}
		if e.pkg != nil {
			if obj, ok := e.pkg.Scope().Lookup(n.Name).(*types.Var); ok {
				return &Loc{Prefix: "global$" + obj.Pkg().Name() + "." + obj.Name(), Idx: IntLit(0), T: obj.Type()}
			}
		}
	}
	e.fail("not a location: %s", exprString(x))
	return nil
}

func (e *SpecEnv) indexExpr(n *ast.IndexExpr) (SV, types.Type) {
	c := e.c
	v, t := e.eval(n.X)
	iv, it := e.eval(n.Index)
	switch u := t.Underlying().(type) {
	case *types.Slice:
		sl := v.(Sl)
		idx, _ := e.scalar(iv, it)
		loc := c.elemLoc(u.Elem(), sl.Arr, c.ix(sl.Off, idx))
		if structOf(u.Elem()) != nil {
			return c.loadStruct(e.st, u.Elem(), c.subRef(loc)), u.Elem()
		}
		return c.loadLoc(e.st, loc), u.Elem()
	case *types.Map:
		ref, _ := e.scalar(v, t)
		var key Term
		if k, ok := iv.(Kv); ok {
			key = e.constTo(k, c.scalarSort(u.Key()), u.Key())
		} else {
			key, _ = e.scalar(iv, it)
		}
		val, has := c.mapRead(e.st, u, ref, key)
		return c.mergeSVq(has, val, c.zeroValue(u.Elem())), u.Elem()
	case *types.Basic:
		if u.Info()&types.IsString != 0 {
			s, _ := e.scalar(v, t)
			idx, _ := e.scalar(iv, it)
			return Sc{c.strAt(s, idx)}, types.Typ[types.Uint8]
		}
	}
	e.fail("unsupported index expression %s", exprString(n))
	return nil, nil
}

// mergeSVq is mergeSV without naming (safe inside quantifiers).
func (c *FnCtx) mergeSVq(g Term, a, b SV) SV {
	c.vc.noName++
	defer func() { c.vc.noName-- }()
	return c.mergeSV(g, a, b)
}

func (e *SpecEnv) callExpr(n *ast.CallExpr) (SV, types.Type) {
	c := e.c
	if id, ok := n.Fun.(*ast.Ident); ok {
		switch id.Name {
		case "old":
			oe := *e
			oe.st = e.old
			oe.inOld = true
			return oe.eval(n.Args[0])
		case "implies":
			return Sc{Implies(e.evalBool(n.Args[0]), e.evalBool(n.Args[1]))}, tBool
		case "iff":
			return Sc{Eq(e.evalBool(n.Args[0]), e.evalBool(n.Args[1]))}, tBool
		case "ite":
			cond := e.evalBool(n.Args[0])
			a, at := e.eval(n.Args[1])
			b, bt := e.eval(n.Args[2])
			_, ak := a.(Kv)
			_, bk := b.(Kv)
			if ak || bk || isScalarSV(a) {
				ta, tb, ty := e.unify(a, at, b, bt)
				return Sc{Ite(cond, ta, tb)}, ty
			}
			return c.mergeSVq(cond, a, b), at
		case "forall", "exists":
			return Sc{e.quantifier(id.Name, n)}, tBool
		case "len":
			v, t := e.eval(n.Args[0])
			switch x := v.(type) {
			case Sl:
				return Sc{x.Len}, types.Typ[types.Int]
			case Sc:
				if x.T.Sort == SStr {
					return Sc{c.strLen(x.T)}, types.Typ[types.Int]
				}
				if mt, ok := t.Underlying().(*types.Map); ok {
					if c.vc.quant == 0 {
						c.mapLenWitness(e.st, mt, x.T)
					}
					return Sc{c.mapLen(e.st, x.T)}, types.Typ[types.Int]
				}
				if _, ok := t.Underlying().(*types.Chan); ok {
					return Sc{c.chanField(e.st, "chan$len", SInt, x.T)}, types.Typ[types.Int]
				}
			}
			e.fail("len of unsupported value")
		case "cap":
			v, t := e.eval(n.Args[0])
			switch x := v.(type) {
			case Sl:
				return Sc{x.Cap}, types.Typ[types.Int]
			case Sc:
				if _, ok := t.Underlying().(*types.Chan); ok {
					return Sc{c.chanField(e.st, "chan$cap", SInt, x.T)}, types.Typ[types.Int]
				}
			}
			e.fail("cap of unsupported value")
		case "real":
			v, t := e.eval(n.Args[0])
			if k, ok := v.(Kv); ok {
				return Sc{e.constTo(k, SReal, tReal)}, tReal
			}
			tm, _ := e.scalar(v, t)
			switch {
			case tm.Sort == SReal:
				return Sc{tm}, tReal
			case tm.Sort == SInt:
				return Sc{App(SReal, "to_real", tm)}, tReal
			case tm.Sort.IsFP():
				return Sc{App(SReal, "fp.to_real", tm)}, tReal
			case tm.Sort.IsBV():
				if bb := basicOf(t); bb != nil && !isUnsigned(bb) {
					e.fail("real() of signed bit-vector unsupported")
				}
				return Sc{App(SReal, "to_real", App(SInt, "bv2nat", tm))}, tReal
			}
		case "mathint":
			v, t := e.eval(n.Args[0])
			if k, ok := v.(Kv); ok {
				return Sc{e.constTo(k, SInt, tMathInt)}, tMathInt
			}
			tm, _ := e.scalar(v, t)
			switch {
			case tm.Sort == SInt:
				return Sc{tm}, tMathInt
			case tm.Sort.IsBV():
				return Sc{App(SInt, "bv2nat", tm)}, tMathInt
			case tm.Sort == SReal:
				return Sc{App(SInt, "to_int", tm)}, tMathInt
			}
		case "floor":
			v, t := e.eval(n.Args[0])
			tm, _ := e.scalar(v, t)
			if tm.Sort == SReal {
				return Sc{App(SInt, "to_int", tm)}, tMathInt
			}
		case "result":
			return e.ident(id)
		case "min", "max":
			a, at := e.eval(n.Args[0])
			b, bt := e.eval(n.Args[1])
			ta, tb, ty := e.unify(a, at, b, bt)
			op := "<="
			if id.Name == "max" {
				op = ">="
			}
			cmp := App(SBool, op, ta, tb)
			if ta.Sort.IsFP() {
				cmp = App(SBool, map[string]string{"<=": "fp.leq", ">=": "fp.geq"}[op], ta, tb)
			}
			return Sc{Ite(cmp, ta, tb)}, ty
		case "abs":
			v, t := e.eval(n.Args[0])
			tm, ty := e.scalar(v, t)
			if tm.Sort == SInt {
				return Sc{App(SInt, "abs", tm)}, ty
			}
			return Sc{Ite(App(SBool, ">=", tm, Term{"0.0", SReal}), tm, App(SReal, "-", tm))}, ty
		case "isnil":
			v, t := e.eval(n.Args[0])
			if eq, ok := c.equalSV(v, Sc{IntLit(0)}, t); ok {
				return Sc{eq}, tBool
			}
		case "allocated":
			v, t := e.eval(n.Args[0])
			tm, _ := e.scalar(v, t)
			return Sc{c.isAllocated(e.st, tm)}, tBool
		case "fresh":
			v, t := e.eval(n.Args[0])
			tm, _ := e.scalar(v, t)
			return Sc{And(App(SBool, ">", tm, IntLit(0)), Not(c.isAllocated(e.old, tm)), c.isAllocated(e.st, tm))}, tBool
		case "has":
			// has(m, k): key k is in map m
			mv, mt := e.eval(n.Args[0])
			m, ok := mt.Underlying().(*types.Map)
			if !ok {
				e.fail("has() needs a map")
			}
			ref, _ := e.scalar(mv, mt)
			kv, kt := e.eval(n.Args[1])
			var key Term
			if k, ok := kv.(Kv); ok {
				key = e.constTo(k, c.scalarSort(m.Key()), m.Key())
			} else {
				key, _ = e.scalar(kv, kt)
			}
			dom, _ := c.mapDom(e.st, m, ref)
			return Sc{And(Not(Eq(ref, IntLit(0))), Select(dom, key, SBool))}, tBool
		case "tag":
			// tag(x) of an interface value, istype(x, T)
			v, _ := e.eval(n.Args[0])
			if iv, ok := v.(If); ok {
				return Sc{iv.Tag}, tMathInt
			}
		}
		if f, ok := specBuiltins[id.Name]; ok {
			return f(e, n)
		}
		// conversion to a basic type: T(x)
		if obj := types.Universe.Lookup(id.Name); obj != nil {
			if tn, ok := obj.(*types.TypeName); ok && len(n.Args) == 1 {
				return e.convertTo(n.Args[0], tn.Type())
			}
		}
		// spec predicate / pure function
		if pd := c.eng.pred(e.pkg, id.Name); pd != nil {
			return e.applyPred(pd, n.Args)
		}
		// package-level Go function or named type conversion
		if e.pkg != nil {
			if obj := e.pkg.Scope().Lookup(id.Name); obj != nil {
				switch o := obj.(type) {
				case *types.Func:
					return e.callGo(c.eng.prog.FuncValue(o), nil, n.Args)
				case *types.TypeName:
					if len(n.Args) == 1 {
						return e.convertTo(n.Args[0], o.Type())
					}
				}
			}
		}
		e.fail("unknown function %s in spec", id.Name)
	}
	if sel, ok := n.Fun.(*ast.SelectorExpr); ok {
		// pkg.Func(...) or x.Method(...)
		if id, ok := sel.X.(*ast.Ident); ok {
			if _, isVar := e.vars[id.Name]; !isVar && (e.fr == nil || e.fr.named[id.Name] == nil) {
				if p := c.eng.packageByName(id.Name, e.pkg); p != nil && (e.pkg == nil || e.pkg.Scope().Lookup(id.Name) == nil) {
					obj := p.Scope().Lookup(sel.Sel.Name)
					switch o := obj.(type) {
					case *types.Func:
						return e.callGo(c.eng.prog.FuncValue(o), nil, n.Args)
					case *types.TypeName:
						if len(n.Args) == 1 {
							return e.convertTo(n.Args[0], o.Type())
						}
					}
					if pd := c.eng.predIn(p.Path(), sel.Sel.Name); pd != nil {
						return e.applyPred(pd, n.Args)
					}
					e.fail("unknown %s.%s", id.Name, sel.Sel.Name)
				}
			}
		}
		recv, rt := e.eval(sel.X)
		obj, _, _ := types.LookupFieldOrMethod(rt, true, e.pkg, sel.Sel.Name)
		if obj == nil {
			// unexported method of another package
			if named, ok := derefType(rt).(*types.Named); ok {
				for i := 0; i < named.NumMethods(); i++ {
					if named.Method(i).Name() == sel.Sel.Name {
						obj = named.Method(i)
					}
				}
			}
		}
		if m, ok := obj.(*types.Func); ok {
			fn := c.eng.prog.FuncValue(m)
			if fn == nil {
				if iv, isIf := recv.(If); isIf && m.Name() == "Error" && len(n.Args) == 0 {
					// error text of an interface value (same uninterpreted function as the code's err.Error())
					return Sc{c.uf("errtext", SStr, iv.Tag, iv.ID)}, types.Typ[types.String]
				}
				e.fail("method %s has no SSA function", m.FullName())
			}
			return e.callGo(fn, &bound{recv, rt}, n.Args)
		}
		e.fail("unknown method %s on %s", sel.Sel.Name, rt)
	}
	e.fail("unsupported call %s", exprString(n))
	return nil, nil
}

func isScalarSV(v SV) bool { _, ok := v.(Sc); return ok }

func (e *SpecEnv) convertTo(arg ast.Expr, to types.Type) (SV, types.Type) {
	c := e.c
	v, t := e.eval(arg)
	if k, ok := v.(Kv); ok {
		s := c.scalarSort(to)
		return Sc{e.constTo(k, s, to)}, to
	}
	if t == nil {
		e.fail("conversion of untyped value")
	}
	// spec-level conversions between mathematical sorts
	if tm, ok := v.(Sc); ok {
		want := c.scalarSort(to)
		if tm.T.Sort == want && (isUntypedSpec(t)) {
			return v, to
		}
		if isUntypedSpec(t) && want == SReal && tm.T.Sort == SInt {
			return Sc{App(SReal, "to_real", tm.T)}, to
		}
	}
	st := e.st.clone()
	r := c.convert(st, v, t, to)
	return r, to
}

func isUntypedSpec(t types.Type) bool {
	b, ok := t.(*types.Basic)
	return ok && b.Info()&types.IsUntyped != 0
}

// callGo evaluates a call to a real Go function inside a spec by executing it symbolically on
// a copy of the state (the function must be side-effect free for this to be meaningful; its
// effects on the copy are discarded).
func (e *SpecEnv) callGo(fn *ssa.Function, recv *bound, args []ast.Expr) (SV, types.Type) {
	c := e.c
	if fn == nil {
		e.fail("call to function without SSA body in spec")
	}
	if c.vc.quant > 0 {
		// library functions that are functions of their arguments can be used anywhere
		if !c.eng.inModule(fn) && c.eng.isPureExtern(fn.String()) {
			return e.pureCallInSpec(fn, recv, args)
		}
		e.fail("call to Go function %s inside a quantifier is not supported", fn.Name())
	}
	var argv []SV
	sig := fn.Signature
	if recv != nil {
		argv = append(argv, e.coerceArg(recv.v, recv.t, sig.Recv().Type()))
	}
	for i, a := range args {
		v, t := e.eval(a)
		var pt types.Type
		if i < sig.Params().Len() {
			pt = sig.Params().At(i).Type()
		}
		argv = append(argv, e.coerceArg(v, t, pt))
	}
	st := e.st.clone()
	fr := e.fr
	if fr == nil {
		fr = &Frame{fn: fn, depth: 0}
	}
	c.inSpec++
	before := st.pc
	res := c.callStatic(fr, st, fn, argv, nil, "spec")
	c.inSpec--
	// what the callee's contract (or body) told us about the result is a fact about fresh
	// symbols: keep it
	if st.pc.S != before.S {
		c.vc.Assert(Implies(before, st.pc))
	}
	var rt types.Type
	switch sig.Results().Len() {
	case 0:
		return Sc{TTrue}, tBool
	case 1:
		rt = sig.Results().At(0).Type()
	default:
		rt = sig.Results()
	}
	return res, rt
}

func (e *SpecEnv) coerceArg(v SV, t types.Type, want types.Type) SV {
	c := e.c
	if k, ok := v.(Kv); ok {
		if want == nil {
			tm, _ := e.defaultConst(k)
			return Sc{tm}
		}
		return Sc{e.constTo(k, c.scalarSort(want), want)}
	}
	if want != nil && t != nil {
		// receiver: value vs pointer adjustments
		_, wp := want.Underlying().(*types.Pointer)
		_, hp := t.Underlying().(*types.Pointer)
		if !wp && hp {
			if s, ok := v.(Sc); ok && structOf(want) != nil {
				return c.loadStruct(e.st, want, s.T)
			}
		}
		if _, isIface := want.Underlying().(*types.Interface); isIface {
			if _, ok := v.(If); !ok {
				if isNilType(t) {
					return If{Tag: IntLit(0), ID: IntLit(0)}
				}
				return If{Tag: c.typeTag(t), ID: c.box(v, t), Static: v, StaticT: t}
			}
		}
	}
	return v
}

func (e *SpecEnv) applyPred(pd *PredDef, args []ast.Expr) (SV, types.Type) {
	if len(args) != len(pd.Params) {
		e.fail("%s expects %d arguments", pd.Name, len(pd.Params))
	}
	var evald []bound
	for _, a := range args {
		v, t := e.eval(a)
		evald = append(evald, bound{v, t})
	}
	return e.applyPredVals(pd, evald)
}

func (e *SpecEnv) applyPredVals(pd *PredDef, evald []bound) (SV, types.Type) {
	c := e.c
	ppkg := c.eng.typesPkg(pd.Pkg)
	if ppkg == nil {
		ppkg = e.pkg
	}
	var vals []bound
	for i, ev := range evald {
		v, t := ev.v, ev.t
		pt := c.eng.specType(ppkg, pd.Params[i].Type)
		if k, ok := v.(Kv); ok {
			s := c.specSort(pt)
			v = Sc{e.constTo(k, s, pt)}
			t = pt
		} else if sc, ok := v.(Sc); ok {
			// promote Int to Real when the parameter is real
			if c.specSort(pt) == SReal && sc.T.Sort == SInt {
				v = Sc{App(SReal, "to_real", sc.T)}
			}
			if pt != nil && !isUntypedSpec(pt) {
				t = pt
			}
		}
		vals = append(vals, bound{v, t})
	}
	if pd.Body != nil {
		if e.depth > 24 {
			e.fail("predicate expansion too deep (recursive predicate %s?)", pd.Name)
		}
		ne := e.child()
		ne.pkg = ppkg
		ne.fr = nil
		ne.useCells = false
		ne.vars = map[string]bound{}
		ne.depth = e.depth + 1
		for i, p := range pd.Params {
			ne.vars[p.Name] = vals[i]
		}
		v, t := ne.eval(pd.Body)
		if pd.Result == "" {
			return v, tBool
		}
		rt := c.eng.specType(ppkg, pd.Result)
		if k, ok := v.(Kv); ok {
			return Sc{e.constTo(k, c.specSort(rt), rt)}, rt
		}
		_ = t
		return v, rt
	}
	// uninterpreted
	c.assertAxiomsFor(pd)
	var ts []Term
	for i, b := range vals {
		tm, _ := e.scalar(b.v, b.t)
		_ = i
		ts = append(ts, tm)
	}
	var rs Sort = SBool
	var rt types.Type = tBool
	if pd.Result != "" {
		rt = c.eng.specType(ppkg, pd.Result)
		rs = c.specSort(rt)
	}
	return Sc{c.uf("spec$"+pd.Pkg+"."+pd.Name, rs, ts...)}, rt
}

func (c *FnCtx) specSort(t types.Type) Sort {
	if t == tReal {
		return SReal
	}
	if t == tMathInt {
		return SInt
	}
	s := c.scalarSort(t)
	if s == "" {
		return SInt
	}
	return s
}

func (e *SpecEnv) quantifier(kind string, n *ast.CallExpr) Term {
	c := e.c
	if len(n.Args) != 4 && len(n.Args) != 3 {
		e.fail("%s(i, lo, hi, body) or %s(x, T, body)", kind, kind)
	}
	id, ok := n.Args[0].(*ast.Ident)
	if !ok {
		e.fail("quantifier variable must be an identifier")
	}
	c.vc.qn++
	bv := fmt.Sprintf("%s!q%d", id.Name, c.vc.qn)
	ne := e.child()
	var srt Sort = SInt
	var guard Term = TTrue
	var vt types.Type = tMathInt
	if len(n.Args) == 4 {
		lo, lot := e.eval(n.Args[1])
		hi, hit := e.eval(n.Args[2])
		var lt, ht Term
		if k, ok := lo.(Kv); ok {
			lt = e.constTo(k, SInt, tMathInt)
		} else {
			lt, _ = e.scalar(lo, lot)
		}
		if k, ok := hi.(Kv); ok {
			ht = e.constTo(k, SInt, tMathInt)
		} else {
			ht, _ = e.scalar(hi, hit)
		}
		v := Term{bv, SInt}
		guard = And(App(SBool, "<=", lt, v), App(SBool, "<", v, ht))
		vt = types.Typ[types.Int]
	} else {
		vt = c.eng.specTypeExpr(e.pkg, n.Args[1])
		srt = c.specSort(vt)
	}
	v := Term{bv, srt}
	var bvv SV = Sc{v}
	if p, ok := vt.Underlying().(*types.Pointer); ok && structOf(p.Elem()) == nil {
		bvv = Ad{Loc: &Loc{Prefix: "cell$" + typeKey(p.Elem()), Idx: v, T: p.Elem()}}
	}
	ne.vars[id.Name] = bound{bvv, vt}
	c.vc.quant++
	c.vc.noName++
	var body Term
	func() {
		defer func() {
			c.vc.noName--
			c.vc.quant--
		}()
		body = ne.evalBool(n.Args[len(n.Args)-1])
	}()
	if kind == "forall" {
		inner := Implies(guard, body).S
		if pats := selectPatterns(inner, bv); pats != "" && len(n.Args) == 4 {
			return Term{fmt.Sprintf("(forall ((%s %s)) (! %s %s))", bv, srt, inner, pats), SBool}
		}
		if len(n.Args) == 3 {
			// typed quantifier over a recursive spec function f: trigger only on f(bound var),
			// which keeps the unfolding of recursive definitions under control
			if pats := specFuncPatterns(inner, bv); pats != "" {
				return Term{fmt.Sprintf("(forall ((%s %s)) (! %s %s))", bv, srt, inner, pats), SBool}
			}
		}
		return Term{fmt.Sprintf("(forall ((%s %s)) %s)", bv, srt, inner), SBool}
	}
	return Term{fmt.Sprintf("(exists ((%s %s)) %s)", bv, srt, And(guard, body).S), SBool}
}

// selectPatterns proposes triggers for a quantified formula: the innermost `select` terms
// (and applications of uninterpreted functions) that mention the bound variable. Without
// them the solvers refuse to match array indices of the form (+ off j).
func selectPatterns(body, bv string) string {
	seen := map[string]bool{}
	var pats []string
	// scan for "(select " / "(fn " applications containing bv; keep innermost ones
	type span struct{ a, b int }
	var stack []int
	var spans []span
	for i := 0; i < len(body); i++ {
		switch body[i] {
		case '|':
			j := strings.IndexByte(body[i+1:], '|')
			if j < 0 {
				return ""
			}
			i += j + 1
		case '(':
			stack = append(stack, i)
		case ')':
			if len(stack) == 0 {
				return ""
			}
			a := stack[len(stack)-1]
			stack = stack[:len(stack)-1]
			spans = append(spans, span{a, i + 1})
		}
	}
	isCand := func(t string) bool {
		if !strings.HasPrefix(t, "(select ") {
			return false
		}
		if strings.Contains(t, "(forall ") || strings.Contains(t, "(exists ") || strings.Contains(t, "(ite ") {
			return false
		}
		return containsSym(t, bv)
	}
	for _, sp := range spans {
		t := body[sp.a:sp.b]
		if !isCand(t) {
			continue
		}
		// innermost: no proper sub-span is a candidate
		inner := false
		for _, sq := range spans {
			if sq.a > sp.a && sq.b <= sp.b && (sq.a != sp.a || sq.b != sp.b) && isCand(body[sq.a:sq.b]) {
				inner = true
				break
			}
		}
		if inner || seen[t] {
			continue
		}
		seen[t] = true
		pats = append(pats, ":pattern ("+t+")")
		if len(pats) >= 4 {
			break
		}
	}
	return strings.Join(pats, " ")
}

func containsSym(t, sym string) bool {
	i := 0
	for {
		j := strings.Index(t[i:], sym)
		if j < 0 {
			return false
		}
		j += i
		end := j + len(sym)
		okL := j == 0 || strings.ContainsRune(" ()", rune(t[j-1]))
		okR := end >= len(t) || strings.ContainsRune(" ()", rune(t[end]))
		if okL && okR {
			return true
		}
		i = end
	}
}

func trimSpecType(s string) string { return strings.TrimSpace(s) }

func init() {
	specBuiltins["held"] = func(e *SpecEnv, n *ast.CallExpr) (SV, types.Type) {
		v, t := e.eval(n.Args[0])
		tm, _ := e.scalar(v, t)
		h := e.c.heapGet(e.st, "held$", SArr(SInt, SBool))
		return Sc{Select(h, tm, SBool)}, tBool
	}
	// freshslice(s): the backing array of s did not exist at function entry (or s is nil)
	specBuiltins["freshslice"] = func(e *SpecEnv, n *ast.CallExpr) (SV, types.Type) {
		v, _ := e.eval(n.Args[0])
		sl, ok := v.(Sl)
		if !ok {
			e.fail("freshslice() needs a slice")
		}
		// allocated since the `old` state of this evaluation (function entry for the function's
		// own clauses, the call for a callee's postcondition)
		base := e.c.allocInit()
		if e.old != nil {
			base = e.c.allocCur(e.old)
		}
		return Sc{Or(Eq(sl.Arr, IntLit(0)), App(SBool, ">=", sl.Arr, base))}, tBool
	}
	// arrof(s): the backing array of a slice, as an opaque reference
	specBuiltins["arrof"] = func(e *SpecEnv, n *ast.CallExpr) (SV, types.Type) {
		v, _ := e.eval(n.Args[0])
		sl, ok := v.(Sl)
		if !ok {
			e.fail("arrof() needs a slice")
		}
		return Sc{sl.Arr}, tMathInt
	}
	// oncedone(o): the sync.Once o has already run its function (ghost flag of the Once model)
	specBuiltins["oncedone"] = func(e *SpecEnv, n *ast.CallExpr) (SV, types.Type) {
		loc := e.evalLoc(n.Args[0])
		if loc == nil {
			e.fail("oncedone() needs a sync.Once variable or field")
		}
		h := e.c.heapGet(e.st, "ghost$once$done", SArr(SInt, SBool))
		ref := e.c.subRef(loc)
		if strings.HasPrefix(loc.Prefix, "global$") && loc.Idx2 == nil && structOf(loc.T) != nil {
			// a package-level struct variable is addressed by its global reference
			ref = e.c.vc.Const("gref$"+strings.TrimPrefix(loc.Prefix, "global$"), SInt)
		}
		return Sc{Select(h, ref, SBool)}, tBool
	}
	// bytestext(b): the text held by a []byte value (what string(b) yields)
	specBuiltins["bytestext"] = func(e *SpecEnv, n *ast.CallExpr) (SV, types.Type) {
		v, _ := e.eval(n.Args[0])
		if _, ok := v.(Sl); !ok {
			e.fail("bytestext() needs a []byte")
		}
		return Sc{e.c.sliceText(e.st, v)}, types.Typ[types.String]
	}
	// samearray(a, b): two slices share their backing array
	specBuiltins["samearray"] = func(e *SpecEnv, n *ast.CallExpr) (SV, types.Type) {
		a, _ := e.eval(n.Args[0])
		b, _ := e.eval(n.Args[1])
		sa, ok1 := a.(Sl)
		sb, ok2 := b.(Sl)
		if !ok1 || !ok2 {
			e.fail("samearray() needs two slices")
		}
		return Sc{Eq(sa.Arr, sb.Arr)}, tBool
	}
	specBuiltins["ceilu64"] = func(e *SpecEnv, n *ast.CallExpr) (SV, types.Type) {
		v, t := e.eval(n.Args[0])
		tm, _ := e.scalar(v, t)
		if !tm.Sort.IsFP() {
			e.fail("ceilu64 needs a float in fp mode")
		}
		return Sc{Term{fmt.Sprintf("((_ fp.to_ubv 64) RTP %s)", tm.S), SBV(64)}}, types.Typ[types.Uint64]
	}
	specBuiltins["truncu64"] = func(e *SpecEnv, n *ast.CallExpr) (SV, types.Type) {
		v, t := e.eval(n.Args[0])
		tm, _ := e.scalar(v, t)
		if !tm.Sort.IsFP() {
			e.fail("truncu64 needs a float in fp mode")
		}
		return Sc{Term{fmt.Sprintf("((_ fp.to_ubv 64) RTZ %s)", tm.S), SBV(64)}}, types.Typ[types.Uint64]
	}
}

// assertAxiomsFor adds (once per VC) the axioms that mention an uninterpreted spec function.
func (c *FnCtx) assertAxiomsFor(pd *PredDef) {
	if c.axiomsDone == nil {
		c.axiomsDone = map[*AxiomDef]bool{}
	}
	if c.vc.quant > 0 {
		// inside a quantifier body: postpone until we are back at top level
		c.pendingAxioms = append(c.pendingAxioms, pd)
		return
	}
	defer func() {
		for len(c.pendingAxioms) > 0 && c.vc.quant == 0 {
			p := c.pendingAxioms[0]
			c.pendingAxioms = c.pendingAxioms[1:]
			c.assertAxiomsFor(p)
		}
	}()
	for _, ax := range c.eng.cs.Axioms {
		if ax.Pkg != pd.Pkg || c.axiomsDone[ax] || !strings.Contains(ax.Text, pd.Name+"(") {
			continue
		}
		c.axiomsDone[ax] = true
		c.trusted["axiom(assumed): "+ax.Pkg+" ["+ax.Label+"] "+ax.Text] = true
		pkg := c.eng.typesPkg(ax.Pkg)
		env := &SpecEnv{c: c, st: c.initial, old: c.initial, vars: map[string]bound{}, pkg: pkg}
		var binders []string
		c.vc.quant++
		c.vc.noName++
		for _, v := range ax.Vars {
			t := c.eng.specType(pkg, v.Type)
			c.vc.qn++
			name := fmt.Sprintf("%s!q%d", v.Name, c.vc.qn)
			srt := c.specSort(t)
			env.vars[v.Name] = bound{Sc{Term{name, srt}}, t}
			binders = append(binders, fmt.Sprintf("(%s %s)", name, srt))
		}
		var body Term
		func() {
			defer func() {
				if r := recover(); r != nil {
					if se, ok := r.(specError); ok {
						c.eng.errorf("axiom [%s]: %s", ax.Label, se.msg)
						body = TTrue
						return
					}
					panic(r)
				}
			}()
			body = env.evalBool(ax.Expr)
		}()
		c.vc.noName--
		c.vc.quant--
		if len(binders) > 0 {
			body = Term{"(forall (" + strings.Join(binders, " ") + ") " + body.S + ")", SBool}
		}
		c.vc.Assert(body)
	}
}

// specFuncPatterns: applications `(spec$... bv)` of an uninterpreted spec function to exactly
// the bound variable.
func specFuncPatterns(body, bv string) string {
	seen := map[string]bool{}
	var pats []string
	i := 0
	for {
		j := strings.Index(body[i:], "(spec$")
		if j < 0 {
			break
		}
		j += i
		// function symbol runs to the next space (symbols with | quoting are skipped)
		k := strings.IndexByte(body[j:], ' ')
		if k < 0 {
			break
		}
		rest := body[j+k+1:]
		if strings.HasPrefix(rest, bv+")") {
			t := body[j : j+k+1+len(bv)+1]
			if !seen[t] {
				seen[t] = true
				pats = append(pats, ":pattern ("+t+")")
			}
		}
		i = j + 6
	}
	return strings.Join(pats, " ")
}

// pureCallInSpec: application of a deterministic library function as an uninterpreted function
// (same symbol as the one used when the code calls it), usable inside quantifier bodies.
func (e *SpecEnv) pureCallInSpec(fn *ssa.Function, recv *bound, args []ast.Expr) (SV, types.Type) {
	c := e.c
	sig := fn.Signature
	var ts []Term
	add := func(v SV, t types.Type, want types.Type) {
		if k, ok := v.(Kv); ok {
			ts = append(ts, e.constTo(k, c.scalarSort(want), want))
			return
		}
		switch x := v.(type) {
		case Sc:
			ts = append(ts, x.T)
		case Sl:
			ts = append(ts, x.Arr, x.Off, x.Len)
		case If:
			ts = append(ts, x.Tag, x.ID)
		default:
			e.fail("unsupported argument in call of %s inside a quantifier", fn.Name())
		}
	}
	if recv != nil {
		add(recv.v, recv.t, sig.Recv().Type())
	}
	for i, a := range args {
		v, t := e.eval(a)
		add(v, t, sig.Params().At(i).Type())
	}
	if sig.Results().Len() != 1 {
		e.fail("call of %s inside a quantifier: single result expected", fn.Name())
	}
	rt := sig.Results().At(0).Type()
	rs := c.scalarSort(rt)
	if rs == "" {
		e.fail("call of %s inside a quantifier: scalar result expected", fn.Name())
	}
	c.trusted["extern-pure: "+fn.String()+" (deterministic function of its arguments)"] = true
	return Sc{c.uf("ext$"+fn.String(), rs, ts...)}, rt
}

func allocUsedInLoop(li *loopInfo, name string) *ssa.Alloc {
	var found *ssa.Alloc
	for b := range li.blocks {
		for _, in := range b.Instrs {
			for _, op := range in.Operands(nil) {
				if op == nil || *op == nil {
					continue
				}
				if a, ok := (*op).(*ssa.Alloc); ok && a.Comment == name {
					if found != nil && found != a {
						return nil // ambiguous inside the loop as well
					}
					found = a
				}
			}
		}
	}
	return found
}
