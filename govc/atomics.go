package main

import (
	"fmt"
	"go/ast"
	"go/types"
	"strings"

	"golang.org/x/tools/go/ssa"
)

// Atomic operations (sync/atomic). Each operation is one atomic action on a location. Under
// concurrency the value found at the location is arbitrary (other threads interfere), so the
// value is havocked immediately before the action; what a function contributes is recorded in
// ghost heaps:
//   atomic$adds$<family>[loc]   sum of the deltas this execution added (bit-vector or Int)
//   atomic$stores$<family>[loc] number of stores / swaps / successful CAS it performed
//   atomic$ops$<family>[loc]    number of atomic actions it performed on loc
// A function's *atomic effect summary* is then an ordinary postcondition over these ghosts.

type atomicTarget struct {
	family string // heap family of the value
	idx    Term
	sort   Sort
	loc    *Loc // value location (nil for typed atomics, which use their own heap)
	typ    types.Type
}

func (c *FnCtx) atomicTargetOf(v SV, elem types.Type) (*atomicTarget, bool) {
	switch x := v.(type) {
	case Ad:
		if x.Loc == nil || x.Loc.Idx2 != nil {
			return nil, false
		}
		s := c.scalarSort(x.Loc.T)
		if s == "" {
			return nil, false
		}
		return &atomicTarget{family: x.Loc.Prefix, idx: x.Loc.Idx, sort: s, loc: x.Loc, typ: x.Loc.T}, true
	case Sc:
		// pointer to a typed atomic (atomic.Uint64 etc.)
		if elem == nil {
			return nil, false
		}
		var vt types.Type
		switch typeKey(elem) {
		case "atomic.Uint64":
			vt = types.Typ[types.Uint64]
		case "atomic.Int64":
			vt = types.Typ[types.Int64]
		case "atomic.Uint32":
			vt = types.Typ[types.Uint32]
		case "atomic.Int32":
			vt = types.Typ[types.Int32]
		case "atomic.Bool":
			vt = types.Typ[types.Bool]
		default:
			return nil, false
		}
		fam := "atomicval$" + typeKey(elem)
		return &atomicTarget{family: fam, idx: x.T, sort: c.scalarSort(vt), typ: vt}, true
	}
	return nil, false
}

func (c *FnCtx) atomicRead(st *State, t *atomicTarget) Term {
	if t.loc != nil {
		return c.readLeaf(st, t.loc, Leaf{"", t.sort})
	}
	return Select(c.heapGet(st, t.family, SArr(SInt, t.sort)), t.idx, t.sort)
}

func (c *FnCtx) atomicWrite(st *State, t *atomicTarget, v Term) {
	if t.loc != nil {
		c.writeLeaf(st, t.loc, Leaf{"", t.sort}, v)
		return
	}
	h := c.heapGet(st, t.family, SArr(SInt, t.sort))
	c.heapSet(st, t.family, c.vc.Name("h", Store(h, t.idx, v)))
}

func (c *FnCtx) ghostAdd(st *State, name string, idx Term, sort Sort, delta Term) {
	h := c.heapGet(st, name, SArr(SInt, sort))
	cur := Select(h, idx, sort)
	var nv Term
	if sort.IsBV() {
		nv = App(sort, "bvadd", cur, delta)
	} else {
		nv = App(sort, "+", cur, delta)
	}
	c.heapSet(st, name, c.vc.Name("g", Store(h, idx, nv)))
}

// atomicAction: havoc (interference), then apply.
func (c *FnCtx) atomicAction(st *State, t *atomicTarget, kind string, operand Term, operand2 Term) SV {
	c.trusted["sync/atomic operations are linearizable single actions; interference by other threads modelled by havocking the location before each action"] = true
	c.safety("nil", st, Not(Eq(t.idx, IntLit(0))))
	// interference
	cur := c.vc.Fresh("atomic$cur", t.sort)
	if t.sort == SInt {
		c.vc.Assert(c.typeRange(cur, t.typ))
	}
	c.noFrame++
	c.atomicWrite(st, t, cur)
	c.noFrame--
	c.ghostAdd(st, "atomic$ops$"+t.family, t.idx, SInt, IntLit(1))
	c.event(st, "atomic-"+kind, t.idx)
	zeroDelta := c.zeroTerm(t.sort)
	switch kind {
	case "load":
		c.atomicLoads = append(c.atomicLoads, cur)
		return Sc{cur}
	case "add":
		var nv Term
		if t.sort.IsBV() {
			nv = App(t.sort, "bvadd", cur, operand)
		} else {
			nv = App(SInt, "+", cur, operand)
			if b := basicOf(t.typ); b != nil {
				if isUnsigned(b) {
					nv = c.wrapUnsigned(nv, intWidth(b))
				} else {
					nv = c.wrapSigned(nv, intWidth(b))
				}
			}
		}
		nv = c.vc.Name("atomic$new", nv)
		c.atomicWrite(st, t, nv)
		c.ghostAdd(st, "atomic$adds$"+t.family, t.idx, t.sort, operand)
		return Sc{nv}
	case "store":
		c.atomicWrite(st, t, operand)
		c.ghostAdd(st, "atomic$stores$"+t.family, t.idx, SInt, IntLit(1))
		return nil
	case "swap":
		c.atomicWrite(st, t, operand)
		c.ghostAdd(st, "atomic$stores$"+t.family, t.idx, SInt, IntLit(1))
		return Sc{cur}
	case "cas":
		ok := Eq(cur, operand)
		c.atomicWrite(st, t, c.vc.Name("atomic$new", Ite(ok, operand2, cur)))
		c.ghostAdd(st, "atomic$stores$"+t.family, t.idx, SInt, Ite(ok, IntLit(1), IntLit(0)))
		return Sc{ok}
	}
	_ = zeroDelta
	return nil
}

func (e *Engine) initAtomics() {
	reg := func(name, kind string, method bool) {
		e.externs[name] = &externHandler{note: "atomic " + kind, fn: func(c *FnCtx, st *State, args []SV, rt types.Type) SV {
			var elem types.Type
			if method {
				// receiver type from the handler name: (*sync/atomic.Uint64).Add
				i := strings.Index(name, "atomic.")
				j := strings.Index(name, ")")
				tn := name[i+len("atomic.") : j]
				if obj := e.tpkgs["sync/atomic"]; obj != nil {
					if o := obj.Scope().Lookup(tn); o != nil {
						elem = o.Type()
					}
				}
			}
			t, ok := c.atomicTargetOf(args[0], elem)
			if !ok {
				c.abstract("atomic operation on unsupported location: " + name)
				if rt == nil {
					return nil
				}
				return c.freshValue(rt, "atomic")
			}
			var op1, op2 Term
			if len(args) > 1 {
				op1 = c.scalarOf(args[1], t.sort)
			}
			if len(args) > 2 {
				op2 = c.scalarOf(args[2], t.sort)
			}
			return c.atomicAction(st, t, kind, op1, op2)
		}, mods: func(c *FnCtx, cc *ssa.CallCommon, ms *loopModSet) {
			ms.atomics = true
			// the value heap of the target
			if len(cc.Args) > 0 {
				if p, ok := cc.Args[0].Type().Underlying().(*types.Pointer); ok {
					if structOf(p.Elem()) != nil {
						fam := "atomicval$" + typeKey(p.Elem())
						switch typeKey(p.Elem()) {
						case "atomic.Uint64":
							ms.heaps[fam] = SArr(SInt, c.scalarSort(types.Typ[types.Uint64]))
						case "atomic.Uint32":
							ms.heaps[fam] = SArr(SInt, c.scalarSort(types.Typ[types.Uint32]))
						case "atomic.Int64":
							ms.heaps[fam] = SArr(SInt, c.scalarSort(types.Typ[types.Int64]))
						case "atomic.Int32":
							ms.heaps[fam] = SArr(SInt, c.scalarSort(types.Typ[types.Int32]))
						case "atomic.Bool":
							ms.heaps[fam] = SArr(SInt, SBool)
						}
					} else {
						c.addAddrTargets(&Frame{}, ms, cc.Args[0])
					}
				}
			}
		}}
	}
	for _, ty := range []string{"Uint64", "Int64", "Uint32", "Int32"} {
		reg("sync/atomic.Add"+ty, "add", false)
		reg("sync/atomic.Load"+ty, "load", false)
		reg("sync/atomic.Store"+ty, "store", false)
		reg("sync/atomic.Swap"+ty, "swap", false)
		reg("sync/atomic.CompareAndSwap"+ty, "cas", false)
		reg("(*sync/atomic."+ty+").Add", "add", true)
		reg("(*sync/atomic."+ty+").Load", "load", true)
		reg("(*sync/atomic."+ty+").Store", "store", true)
		reg("(*sync/atomic."+ty+").Swap", "swap", true)
		reg("(*sync/atomic."+ty+").CompareAndSwap", "cas", true)
	}
	reg("(*sync/atomic.Bool).Load", "load", true)
	reg("(*sync/atomic.Bool).Store", "store", true)
	reg("(*sync/atomic.Bool).Swap", "swap", true)
	reg("(*sync/atomic.Bool).CompareAndSwap", "cas", true)
}

func init() {
	// adds(loc), stores(loc), atomicops(loc): this execution's contribution to an atomic location
	ghostOf := func(kind string) func(e *SpecEnv, n *ast.CallExpr) (SV, types.Type) {
		return func(e *SpecEnv, n *ast.CallExpr) (SV, types.Type) {
			c := e.c
			loc := e.evalLoc(n.Args[0])
			fam, idx := loc.Prefix, loc.Idx
			srt := c.scalarSort(loc.T)
			var vt types.Type = loc.T
			if structOf(loc.T) != nil {
				t, ok := c.atomicTargetOf(Sc{c.subRef(loc)}, loc.T)
				if !ok {
					e.fail("%s(): not an atomic location", kind)
				}
				fam, idx, srt, vt = t.family, t.idx, t.sort, t.typ
			}
			switch kind {
			case "adds":
				h := c.heapGet(e.st, "atomic$adds$"+fam, SArr(SInt, srt))
				return Sc{Select(h, idx, srt)}, vt
			case "stores":
				h := c.heapGet(e.st, "atomic$stores$"+fam, SArr(SInt, SInt))
				return Sc{Select(h, idx, SInt)}, tMathInt
			default:
				h := c.heapGet(e.st, "atomic$ops$"+fam, SArr(SInt, SInt))
				return Sc{Select(h, idx, SInt)}, tMathInt
			}
		}
	}
	specBuiltins["adds"] = ghostOf("adds")
	specBuiltins["stores"] = ghostOf("stores")
	specBuiltins["atomicops"] = ghostOf("ops")
	specBuiltins["loaded"] = func(e *SpecEnv, n *ast.CallExpr) (SV, types.Type) {
		v, _ := e.eval(n.Args[0])
		k, ok := v.(Kv)
		if !ok {
			e.fail("loaded(k) needs a constant")
		}
		var i int
		fmt.Sscanf(k.V.ExactString(), "%d", &i)
		if e.callSite > 0 {
			// a callee's contract applied at a call site: its loads are its own
			return Sc{e.c.uf("callee$loaded", e.c.intSortDefault(), IntLit(int64(e.callSite)), IntLit(int64(i)))}, types.Typ[types.Uint64]
		}
		if i < 1 || i > len(e.c.atomicLoads) {
			// fewer loads happened on this path: the clause talks about a value that does not
			// exist; make that visible as a failed obligation instead of vacuous truth
			return Sc{e.c.uf("loaded$missing", e.c.intSortDefault(), IntLit(int64(i)))}, types.Typ[types.Uint64]
		}
		return Sc{e.c.atomicLoads[i-1]}, types.Typ[types.Uint64]
	}
	specBuiltins["nloads"] = func(e *SpecEnv, n *ast.CallExpr) (SV, types.Type) {
		if e.callSite > 0 {
			return Sc{e.c.uf("callee$nloads", SInt, IntLit(int64(e.callSite)))}, tMathInt
		}
		return Sc{IntLit(int64(len(e.c.atomicLoads)))}, tMathInt
	}
}

func (c *FnCtx) intSortDefault() Sort {
	if c.modeBV {
		return SBV(64)
	}
	return SInt
}
